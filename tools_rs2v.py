#!/usr/bin/env python3
"""tools_rs2v.py [--repo DIR] [--out FILE]

Translator from a small, scalar subset of Rust to Gallina.  It reads the *current* text of the
word-level helper functions of ruint (u64 / u128 / usize / bool / Wrapping<u64> straight-line code
with `let`, `let mut` + assignment inside `if`, early `return`, tuples, `debug_assert!`, casts,
wrapping_/overflowing_ methods, the DoubleWord helpers, one lookup table) and writes
coq/Gen/Scalar.v: one definition `g_<name>` per function, in the `outcome` monad of Model/Base.v.

Semantics emitted (debug profile = overflow checks on):
  * `+ - *` on u64/u128/usize: `chk64/chk128 (a op b)` = DebugPanic when the exact result leaves the type;
    on Wrapping<u64>: `wrap (a op b)`;   `/ %`: Panic on a zero divisor;
  * `<< >>` on plain integers: DebugPanic when the amount is >= the bit width (literal amounts are
    checked here, in the translator), value = (a * 2^s) mod 2^w  resp.  a / 2^s;
  * `as u64` from u128: `wrap`; `u128::from`, `as u128`: identity; `bool as/into int`: b2z;
  * `debug_assert!(c)`: DebugPanic when c is false; `unlikely(c)` = c;
  * `x.wrapping_add(y)` = wrap (x + y), ... `x.overflowing_add(y)` = (wrap (x + y), B <=? x + y);
  * `&mut u64` parameters are returned as an extra component of the result.
Coq then proves `g_<name> args = <hand-written model function> args` (Proofs/PfGenScalar.v), which
ties those model functions to the source text on every run.  Anything outside the subset raises
Unsupported: the tie for that function is reported as not established (never silently skipped)."""
import argparse, os, re, sys


class Unsupported(Exception):
    pass


# ------------------------------------------------------------------ tokenizer
TOK_RE = re.compile(r"""
    (?P<ws>\s+|//[^\n]*)
  | (?P<str>"(?:[^"\\]|\\.)*")
  | (?P<num>0x[0-9a-fA-F_]+(?:_?[ui](?:8|16|32|64|128|size))?|\d[\d_]*(?:_?[ui](?:8|16|32|64|128|size))?)
  | (?P<id>[A-Za-z_][A-Za-z0-9_]*!?)
  | (?P<op><<=|>>=|\.\.=|<<|>>|<=|>=|==|!=|&&|\|\||\+=|-=|\*=|/=|%=|\|=|&=|\^=|->|=>|::|\.\.|[-+*/%&|^!<>=.,;:(){}\[\]#'@?])
""", re.X)


def tokenize(src):
    out, i = [], 0
    while i < len(src):
        m = TOK_RE.match(src, i)
        if not m:
            raise Unsupported("cannot tokenize at: " + src[i:i + 30])
        i = m.end()
        if m.lastgroup == "ws":
            continue
        out.append((m.lastgroup, m.group(m.lastgroup)))
    return out


def parse_num(txt):
    m = re.match(r"^(0x[0-9a-fA-F_]+?|\d[\d_]*?)_?((?:[ui](?:8|16|32|64|128|size)))?$", txt)
    if not m:
        raise Unsupported("number " + txt)
    body = m.group(1).replace("_", "")
    return (int(body, 16) if body.startswith("0x") else int(body)), m.group(2)


# ------------------------------------------------------------------ parser
class P:
    def __init__(self, toks):
        self.t, self.i = toks, 0

    def peek(self, k=0):
        return self.t[self.i + k] if self.i + k < len(self.t) else ("eof", "")

    def next(self):
        x = self.peek()
        self.i += 1
        return x

    def at(self, v):
        return self.peek()[1] == v

    def eat(self, v):
        if self.peek()[1] != v:
            raise Unsupported("expected %r, got %r" % (v, self.peek()[1]))
        return self.next()

    def accept(self, v):
        if self.at(v):
            self.next()
            return True
        return False

    # ---- types
    def ty(self):
        if self.accept("("):
            ts = []
            while not self.at(")"):
                ts.append(self.ty())
                if not self.accept(","):
                    break
            self.eat(")")
            return ("tuple", ts)
        if self.accept("["):
            t = self.ty()
            if self.accept("]"):
                return ("slice", t)
            self.eat(";")
            n = self.next()[1]
            self.eat("]")
            return ("arr", t, n)
        if self.accept("&"):
            if self.at("mut"):
                self.next()
                return ("mutref", self.ty())
            return self.ty()
        k, v = self.next()
        if v == "Wrapping":
            self.eat("<")
            self.eat("u64")
            self.eat(">")
            return "W64"
        if v == "Self":
            if self.at("::") and self.peek(1)[1] == "Output":
                self.next()
                self.next()
            return "Self"
        if v == "Uint":
            self.eat("<")
            self.eat("BITS")
            self.eat(",")
            self.eat("LIMBS")
            if self.at(">>"):                      # `Option<Uint<BITS, LIMBS>>`: split the `>>` token
                self.t[self.i] = ("op", ">")
            else:
                self.eat(">")
            return "uint"
        if v == "Ordering":
            return "ordering"
        if v == "Matrix":
            return "matrix"
        if v in getattr(self, "iter_tparams", ()):
            return ("iter", "Self")
        if v == "Option":
            self.eat("<")
            t = self.ty()
            self.eat(">")
            return ("option", t)
        if v in ("u64", "u128", "usize", "bool", "u16", "u32", "u8", "i8"):
            return v
        raise Unsupported("type " + v)

    # ---- function
    def fn(self):
        while not self.at("fn"):
            self.next()
        self.eat("fn")
        name = self.next()[1]
        params = []
        self.iter_tparams = set()
        if self.accept("<"):
            while not self.at(">"):
                if not self.at("const") and self.peek()[0] == "id" and self.peek(1)[1] in (">", ","):
                    # a type parameter; only accepted when the where clause says it is an iterator of Self
                    self.iter_tparams.add(self.next()[1])
                    if not self.accept(","):
                        break
                    continue
                if not self.accept("const"):
                    raise Unsupported("generic type parameter")
                gn = self.next()[1]
                self.eat(":")
                params.append((gn, self.ty()))
                if not self.accept(","):
                    break
            self.eat(">")
        self.ngen = len(params)
        self.eat("(")
        while not self.at(")"):
            k0 = 0
            while self.peek(k0)[1] in ("&", "mut"):
                k0 += 1
            if self.peek(k0)[1] == "self":
                ismut = k0 == 2        # `&mut self`
                for _ in range(k0 + 1):
                    self.next()
                params.append(("self", ("mutref", "Self") if ismut else "Self"))
            else:
                self.accept("mut")
                pn = self.next()[1]
                self.eat(":")
                params.append((pn, self.ty()))
            if not self.accept(","):
                break
        self.eat(")")
        ret = ("tuple", [])
        if self.accept("->"):
            ret = self.ty()
        if self.at("where"):
            # `where I: Iterator<Item = Self>` / `Iterator<Item = &'a Self>`: the only bound accepted
            self.next()
            tp = self.next()[1]
            self.eat(":")
            self.eat("Iterator")
            self.eat("<")
            self.eat("Item")
            self.eat("=")
            if self.accept("&"):
                self.eat("'")
                self.next()
            self.eat("Self")
            self.eat(">")
            self.accept(",")
            if tp not in self.iter_tparams:
                raise Unsupported("where clause on a non-parameter")
            self.iter_bound = True
        elif self.iter_tparams:
            raise Unsupported("generic type parameter")
        body = self.block()
        return name, params, ret, body

    # ---- blocks / statements
    def block(self):
        self.eat("{")
        stmts, tail = [], None
        while not self.at("}"):
            if self.at("#"):
                # attribute: #[cfg(recmo_uint_verif)] guards the next statement (a coverage hook): dropped
                self.next()
                self.eat("[")
                depth, txt = 1, ""
                while depth:
                    v = self.next()[1]
                    depth += (v == "[") - (v == "]")
                    txt += v
                if "recmo_uint_verif" in txt:
                    while not self.accept(";"):
                        self.next()
                continue
            if self.at("const") or self.at("static"):
                kind = self.next()[1]
                nm = self.next()[1]
                self.eat(":")
                t = self.ty()
                self.eat("=")
                e = self.expr()
                self.eat(";")
                stmts.append((kind, nm, t, e))
                continue
            if self.at("let"):
                self.next()
                pat = self.pat()
                t = None
                if self.accept(":"):
                    t = self.ty()
                if self.accept(";"):
                    stmts.append(("letdecl", pat, t))     # `let x;` assigned later
                    continue
                self.eat("=")
                e = self.expr()
                self.eat(";")
                stmts.append(("let", pat, t, e))
                continue
            if self.at("return"):
                self.next()
                e = None if self.at(";") else self.expr()
                self.accept(";")
                stmts.append(("return", e))
                continue
            e = self.expr()
            if self.peek()[1] in ("=", "+=", "-=", "*=", "/=", "%=", "|=", "&=", "^=", "<<=", ">>="):
                op = self.next()[1]
                r = self.expr()
                self.eat(";")
                stmts.append(("assign", e, None if op == "=" else op[:-1], r))
                continue
            if self.accept(";"):
                stmts.append(("expr", e))
                continue
            if self.at("}"):
                if e[0] in ("for", "foreach", "fordownrange", "while", "loop") or \
                        (e[0] == "if" and (e[3] is None or (e[2][2] is None and e[3][2] is None))):
                    stmts.append(("expr", e))      # a value-less `if` / loop in tail position is a statement
                else:
                    tail = e
                break
            if e[0] in ("if", "while", "loop", "match", "for", "foreach", "fordownrange"):   # block-like statement without trailing semicolon
                stmts.append(("expr", e))
                continue
            raise Unsupported("statement near %r" % (self.peek()[1],))
        self.eat("}")
        return ("block", stmts, tail)

    def mpat(self):
        """match-arm pattern: tuple / identifier / `_` / bool or integer literal / Some(p) / None."""
        if self.accept("("):
            ps = []
            while not self.at(")"):
                ps.append(self.mpat())
                if not self.accept(","):
                    break
            self.eat(")")
            return ("ptuple", ps)
        k, v = self.next()
        if v == "-" and self.peek()[0] == "num":
            n = parse_num(self.next()[1])[0]
            if n != 1:
                raise Unsupported("negative pattern other than -1")
            return ("plit", "(Zneg xH)")
        if k == "num":
            return ("plit", str(parse_num(v)[0]))
        if v in ("true", "false", "None"):
            return ("plit", v)
        if v == "_":
            return ("pwild",)
        if v == "Some":
            self.eat("(")
            q = self.mpat()
            self.eat(")")
            return ("psome", q)
        return ("pvar", v, False)

    def pat(self):
        if self.accept("("):
            ps = []
            while not self.at(")"):
                ps.append(self.pat())
                if not self.accept(","):
                    break
            self.eat(")")
            return ("ptuple", ps)
        mut = self.accept("mut")
        return ("pvar", self.next()[1], mut)

    # ---- expressions (Rust precedence)
    BIN = [["||"], ["&&"], ["==", "!=", "<", ">", "<=", ">="], ["|"], ["^"], ["&"], ["<<", ">>"],
           ["+", "-"], ["*", "/", "%"]]

    def expr(self, lvl=0):
        if lvl == len(self.BIN):
            return self.cast()
        a = self.expr(lvl + 1)
        while self.peek()[0] == "op" and self.peek()[1] in self.BIN[lvl]:
            op = self.next()[1]
            b = self.expr(lvl + 1)
            a = ("bin", op, a, b)
        return a

    def cast(self):
        e = self.unary()
        while self.at("as"):
            self.next()
            e = ("cast", e, self.ty())
        return e

    def unary(self):
        if self.peek()[0] == "op" and self.peek()[1] in ("!", "-", "*", "&"):
            op = self.next()[1]
            if op == "&" and self.at("mut"):
                self.next()
            return ("un", op, self.unary())
        return self.postfix()

    def args(self):
        self.eat("(")
        xs = []
        while not self.at(")"):
            x = None if self.at("..") else self.expr()
            if self.at(".."):
                self.next()
                hi = None if (self.at(",") or self.at(")")) else self.expr()
                x = ("range", x, hi)
            xs.append(x)
            if not self.accept(","):
                break
        self.eat(")")
        return xs

    def postfix(self):
        e = self.primary()
        while True:
            if self.at("."):
                self.next()
                k, v = self.next()
                if k == "num":
                    e = ("field", e, v)
                elif self.at("::") and self.peek(1)[1] == "<":
                    self.next()
                    self.next()
                    tf = self.ty()
                    self.eat(">")
                    e = ("mcall", e, v + "::<" + str(tf) + ">", self.args())
                elif self.at("("):
                    e = ("mcall", e, v, self.args())
                else:
                    e = ("field", e, v)
            elif self.at("(") and e[0] in ("var", "path"):
                e = ("call", e, self.args())
            elif self.at("?"):
                self.next()
                e = ("try", e)
            elif self.at("["):
                self.next()
                lo = None if (self.at("..") or self.at("..=")) else self.expr()
                if self.at("..") or self.at("..="):
                    incl = self.next()[1] == "..="
                    hi = None if self.at("]") else self.expr()
                    if incl:
                        hi = ("bin", "+", hi, ("num", 1, None))
                    self.eat("]")
                    e = ("slice", e, lo, hi)
                else:
                    self.eat("]")
                    e = ("index", e, lo)
            else:
                return e

    def primary(self):
        k, v = self.peek()
        if k == "num":
            self.next()
            n, suf = parse_num(v)
            return ("num", n, suf)
        if v == "(":
            self.next()
            xs = []
            trailing = False
            while not self.at(")"):
                xs.append(self.expr())
                trailing = self.accept(",")
                if not trailing:
                    break
            self.eat(")")
            if len(xs) == 1 and not trailing:
                return xs[0]
            return ("tuple", xs)
        if k == "str":
            self.next()
            return ("str", v)
        if v == "[":
            self.next()
            xs = []
            while not self.at("]"):
                xs.append(self.expr())
                if self.accept(";"):
                    n = self.expr()
                    self.eat("]")
                    return ("arrayrep", xs[0], n)
                if not self.accept(","):
                    break
            self.eat("]")
            return ("array", xs)
        if v == "Self" and self.peek(1)[1] == "{" and self.peek(2)[1] == "limbs" and self.peek(3)[1] == "}":
            for _ in range(4):
                self.next()
            return ("structlit", ("var", "limbs"))
        if v == "if" and self.peek(1)[1] == "let":
            self.next()
            self.next()
            pat = self.mpat()
            self.eat("=")
            scrut = self.expr()
            th = self.block()
            self.eat("else")
            el = self.block()
            return ("iflet", pat, scrut, th, el)
        if v == "if":
            self.next()
            c = self.expr()
            th = self.block()
            el = None
            if self.accept("else"):
                el = self.block() if self.at("{") else ("block", [], self.primary())
            return ("if", c, th, el)
        if v == "match":
            self.next()
            scrut = self.expr()
            self.eat("{")
            arms = []
            while not self.at("}"):
                pat = self.mpat()
                self.eat("=>")
                if self.at("{"):
                    body = self.block()
                else:
                    x = self.expr()
                    if x == ("var", "_") and self.accept("="):
                        x = ("discard", self.expr())        # `_ = expr`: evaluated for its effects
                    body = ("block", [], x)
                arms.append((pat, body))
                self.accept(",")
            self.eat("}")
            return ("match", scrut, arms)
        if v == "|":
            self.next()
            ps = []
            while not self.at("|"):
                self.accept("&")
                self.accept("mut")
                ps.append(self.next()[1])
                if not self.accept(","):
                    break
            self.eat("|")
            return ("closure", ps, self.expr())
        if v == "return":
            self.next()
            e = None if (self.at(";") or self.at(",") or self.at("}")) else self.expr()
            return ("return", e)
        if v == "loop" and self.peek(1)[1] == "{":
            self.next()
            return ("loop", self.block())
        if v == "while":
            self.next()
            c = self.expr()
            return ("while", c, self.block())
        if v == "for":
            self.next()
            iv = self.next()[1]
            self.eat("in")
            if self.at("("):
                # `(LO..HI).rev()`
                save = self.i
                try:
                    self.eat("(")
                    lo = self.expr()
                    if self.accept("..="):
                        hi = ("bin", "+", self.expr(), ("num", 1, None))
                    else:
                        self.eat("..")
                        hi = self.expr()
                    self.eat(")")
                    self.eat(".")
                    self.eat("rev")
                    self.eat("(")
                    self.eat(")")
                    return ("fordownrange", iv, lo, hi, self.block())
                except Unsupported:
                    self.i = save
            lo = self.expr()
            if self.accept(".."):
                hi = self.expr()
                return ("for", iv, lo, hi, self.block())
            return ("foreach", iv, lo, self.block())
        if v == "unsafe":
            self.next()
            return self.block()
        if v == "{":
            return self.block()
        if k == "id":
            self.next()
            if v.endswith("!"):
                return ("macro", v[:-1], self.args())
            segs = [v]
            while self.at("::"):
                self.next()
                segs.append(self.next()[1])
            return ("var", v) if len(segs) == 1 else ("path", segs)
        raise Unsupported("expression at %r" % (v,))


# ------------------------------------------------------------------ emitter
WIDTH = {"u64": 64, "u128": 128, "usize": 64, "W64": 64, "u16": 16, "u32": 32, "u8": 8}
MODN = {"u64": "B", "usize": "B", "W64": "B", "u128": "BB"}
INTS = set(WIDTH)


def isint(t):
    return t in INTS


class Fn:
    """One function being emitted."""

    def __init__(self, tr, gname, params, ret, selfty):
        self.tr, self.gname, self.selfty = tr, gname, selfty
        self.n = 0
        self.impure = False
        self.tables = []
        self.mutouts = []

    def mut_outs(self, env):
        """Final contents of the `&mut` parameters.  A parameter (or a view) that has been re-bound to a
        sub-slice view `let v = &mut xs[lo..hi]` is written back into what it is a view of, innermost first."""
        val = {}
        for v in reversed(getattr(self, "views", [])):
            cur = val.get(v["vname"], env[v["vname"]][0])
            if v["palias"] is None:
                par = val.get(v["pname"], env[v["pname"]][0])
                val[v["pname"]] = "(splice %s %s %s)" % (par, v["lo"], cur)
            else:
                val[v["vname"]] = "(splice %s %s %s)" % (v["palias"], v["lo"], cur)
        return [val.get(m, env[m][0]) for m in self.mutouts]

    def unit_return(self, env):
        outs = self.mut_outs(env)
        return "Val " + ("tt" if not outs else outs[0] if len(outs) == 1 else "(" + ", ".join(outs) + ")")

    def fresh(self):
        self.n += 1
        return "t_%d" % self.n


def paren(s):
    return s if re.match(r"^[\w.']+$", s) else "(" + s + ")"


class Tr:
    def __init__(self):
        self.shiftops = {}  # '<<' -> 'wrapping_shl' ... from the impl_shift! macro arm for primitive amounts
        self.binops = {}    # '+' -> 'wrapping_add' ... from the impl_bin_op! invocations
        self.opmethods = {} # 'add' -> 'wrapping_add' ...
        self.uconsts = {}   # associated consts of Uint: name -> (type, initialiser AST), inlined at use
        self.sigs = {}      # rust name -> (gname, [param tys], ret ty, pure, mutref_idx)
        self.alias = {}
        self.mconsts = {}   # associated consts of Matrix: name -> initialiser AST
        self.ngen = {}      # rust name -> number of const generic parameters (leading usize parameters)
        self.out = []

    # ---- expressions: returns (binds, atom, ty)
    def lit_ty(self, e, want):
        if e[0] == "num":
            return e[2] or want
        return None

    def ex(self, f, e, env, want=None):
        k = e[0]
        if k == "__atom":
            return [], e[1], want or "usize"
        if k == "num":
            t = e[2] or want or "u64"
            return [], str(e[1]), t
        if k == "var":
            nm = e[1]
            if nm in ("true", "false"):
                return [], nm, "bool"
            if nm == "None":
                return [], "None", want if (want and want[0] == "option") else ("option", None)
            if nm in env:
                ty = env[nm][1]
                if isinstance(ty, tuple) and ty and ty[0] == "ref":
                    # `let r = xs.get_unchecked(i)`: *r (or auto-deref) reads xs[i] now; Rust's borrow rules
                    # guarantee that nothing wrote xs[i] since the reference was taken
                    f.impure = True
                    v = f.fresh()
                    return ["do %s <- idx %s %s ;" % (v, env[ty[1]][0], paren(ty[2]))], v, "u64"
                return [], env[nm][0], ty
            raise Unsupported("unbound " + nm)
        if k == "path":
            p = "::".join(e[1])
            if p == "u64::MAX":
                return [], "(B - 1)", "u64"
            if p == "u128::MAX":
                return [], "(BB - 1)", "u128"
            if len(e[1]) >= 2 and e[1][-2] == "Ordering" and e[1][-1] in ("Less", "Equal", "Greater"):
                return [], {"Less": "Lt", "Equal": "Eq", "Greater": "Gt"}[e[1][-1]], "ordering"
            if len(e[1]) == 2 and self.alias.get(e[1][0], e[1][0]) == "Matrix" and e[1][1] in self.mconsts:
                saved, f.selfty = f.selfty, "matrix"
                try:
                    return self.ex(f, self.mconsts[e[1][1]], env, "matrix")
                finally:
                    f.selfty = saved
            if len(e[1]) == 2 and ((e[1][0] == "Self" and f.selfty == "uint") or (e[1][0] == "Uint" and "BITS" in env)):
                c = e[1][1]
                if c == "ZERO":
                    return [], "(uZERO BITS)", "uint"
                if c == "MAX":
                    return [], "(uMAX BITS)", "uint"
                if c == "ONE":      # const_from_u64(1): not translated; the model constant of UDiv.v
                    return [], "(UDiv.uone BITS)", "uint"
                if c in ("BITS", "LIMBS"):
                    # Self::LIMBS additionally asserts LIMBS == nlimbs(BITS) at compile time; the
                    # translated functions are only stated for well-formed (BITS, LIMBS)
                    return [], c, "usize"
                if c in self.uconsts:
                    cty, cast = self.uconsts[c]
                    return self.ex(f, cast, env, cty)
            if len(e[1]) == 2 and e[1][1] in self.mconsts and (e[1][0] == "Matrix" or (e[1][0] == "Self" and f.selfty == "matrix")):
                saved, f.selfty = f.selfty, "matrix"
                try:
                    return self.ex(f, self.mconsts[e[1][1]], env, "matrix")
                finally:
                    f.selfty = saved
            raise Unsupported("path " + p)
        if k == "tuple":
            bs, atoms, ts = [], [], []
            wants = want[1] if (want and want[0] == "tuple") else [None] * len(e[1])
            for x, w in zip(e[1], wants):
                b, a, t = self.ex(f, x, env, w)
                bs += b
                atoms.append(a)
                ts.append(t)
            return bs, "(" + ", ".join(atoms) + ")", ("tuple", ts)
        if k == "block":
            # value block: a tail only (e.g. `unsafe { X }`), or statements followed by a tail value
            if e[1]:
                return self.valued(f, [e], None, env, want)
            return self.ex(f, e[2], env, want)
        if k == "cast":
            b, a, t = self.ex(f, e[1], env, None if e[1][0] != "num" else e[2])
            to = e[2]
            if t == "bool":
                return b, "(b2z %s)" % a, to
            if to in ("u64", "usize", "W64"):
                if t == "lit":
                    return b, a, to
                if t == "u128":
                    return b, "(wrap %s)" % paren(a), to
                return b, a, to
            if to == "u128":
                return b, a, to
            raise Unsupported("cast to %s" % (to,))
        if k == "un":
            op = e[1]
            if op in ("*", "&"):
                return self.ex(f, e[2], env, want)
            b, a, t = self.ex(f, e[2], env, want)
            if op == "!":
                if t == "bool":
                    return b, "(negb %s)" % paren(a), t
                return b, "(%s - 1 - %s)" % (MODN[t], paren(a)), t
            if op == "-" and t == "W64":
                return b, "(wrap (0 - %s))" % paren(a), t
            raise Unsupported("unary " + op)
        if k == "field":
            b, a, t = self.ex(f, e[1], env)
            if e[2] == "0" and t == "W64":
                return b, a, "u64"
            if t == "matrix" and e[2] in ("0", "1", "2", "3", "4"):
                return b, "(mat_%s %s)" % (e[2], paren(a)), "bool" if e[2] == "4" else "u64"
            if e[2] == "limbs" and t == "uint":
                return b, a, ("slice", "u64")
            if e[2] in ("0", "1") and isinstance(t, tuple) and t[0] == "tuple" and len(t[1]) == 2:
                return b, "(%s %s)" % ("fst" if e[2] == "0" else "snd", paren(a)), t[1][int(e[2])]
            raise Unsupported("field ." + e[2])
        if k == "arrayrep" and e[1][0] == "arrayrep" and e[1][1][0] == "num" and e[1][1][1] == 0 \
                and e[1][2][0] == "num":
            # `[[0u64; K]; N]`: only ever viewed as a flat `&mut [u64]` (see from_raw_parts_mut below)
            bn, an, _ = self.ex(f, e[2], env, "usize")
            return bn, "(repeat 0 (Z.to_nat (%d * %s)))" % (e[1][2][1], paren(an)), ("flatbuf", "u64")
        if k == "arrayrep":
            b, a, t = self.ex(f, e[1], env, "u64")
            bn, an, _ = self.ex(f, e[2], env, "usize")
            return b + bn, "(repeat %s (Z.to_nat %s))" % (paren(a), paren(an)), ("slice", "u64")
        if k == "structlit":
            b, a, t = self.ex(f, e[1], env)
            return b, a, "uint"
        if k == "index":
            b, a, t = self.ex(f, e[1], env)
            if t == "uint" and e[2][0] == "var" and e[2][1].startswith("i_"):
                t = ("slice", "u64")               # desugared `for x in &mut u.limbs`
            if not (isinstance(t, tuple) and t[0] in ("slice", "arr")):
                raise Unsupported("index into a non-slice")
            bi, ai, _ = self.ex(f, e[2], env, "usize")
            f.impure = True
            v = f.fresh()
            return b + bi + ["do %s <- idx %s %s ;" % (v, paren(a), paren(ai))], v, "u64"
        if k == "slice":
            bs, a, lo, hi = self.slice_bounds(f, e, env)
            v = f.fresh()
            f.impure = True
            return bs + ["do %s <- subslice %s %s %s ;" % (v, paren(a), paren(lo), paren(hi))], v, ("slice", "u64")
        if k == "macro":
            raise Unsupported("macro in expression: " + e[1])
        if k == "if":
            return self.if_expr(f, e, env, want)
        if k == "match":
            return self.match_expr(f, e, env, want)
        if k == "call":
            return self.call(f, e, env, want)
        if k == "mcall":
            return self.mcall(f, e, env, want)
        if k == "bin":
            return self.binop(f, e, env, want)
        raise Unsupported("expression kind " + k)

    def slice_bounds(self, f, e, env):
        """`xs[lo..hi]`: (binds, atom of xs, atom of lo, atom of hi); missing bounds are 0 / xs.len()"""
        b, a, t = self.ex(f, e[1], env)
        if not (isinstance(t, tuple) and t[0] in ("slice", "arr")):
            raise Unsupported("range index into a non-slice")
        bl, al = ([], "0") if e[2] is None else self.ex(f, e[2], env, "usize")[:2]
        bh, ah = ([], "(lenZ %s)" % paren(a)) if e[3] is None else self.ex(f, e[3], env, "usize")[:2]
        return b + bl + bh, a, al, ah

    def chk(self, f, t, s):
        f.impure = True
        v = f.fresh()
        return ["do %s <- %s (%s) ;" % (v, "chk128" if t == "u128" else "chk64", s)], v

    def binop(self, f, e, env, want):
        op, x, y = e[1], e[2], e[3]
        if op in ("&&", "||"):
            b1, a1, _ = self.ex(f, x, env, "bool")
            b2, a2, _ = self.ex(f, y, env, "bool")
            if b2:      # short circuit: the right operand (and its checks) only runs when needed
                f.impure = True
                v = f.fresh()
                rhs = "(%s Val %s)" % (" ".join(b2), a2)
                if op == "&&":
                    return b1 + ["do %s <- (if %s then %s else Val false) ;" % (v, a1, rhs)], v, "bool"
                return b1 + ["do %s <- (if %s then Val true else %s) ;" % (v, a1, rhs)], v, "bool"
            return b1, "(%s %s %s)" % (paren(a1), op, paren(a2)), "bool"
        if op in ("<<", ">>"):
            b1, a1, t1 = self.ex(f, x, env, want)
            if t1 == "uint":
                # `Uint << usize`: the method named in impl_shift!'s `fn shl(self, rhs: $u)` arm
                meth = self.shiftops.get(op)
                if not meth or "U." + meth not in self.sigs:
                    raise Unsupported("shift operator on Uint")
                b2, a2, t2 = self.ex(f, y, env, "usize")
                if t2 not in ("usize", "lit"):
                    raise Unsupported("Uint shifted by a non-usize")
                b3, a3, t3 = self.apply(f, "U." + meth, [("__atom", paren(a2))], env, recv=("__atom", paren(a1)))
                return b1 + b2 + b3, a3, t3
            if y[0] == "num":
                s = y[1]
                if not (0 <= s < WIDTH[t1]):
                    raise Unsupported("shift amount out of range (always panics)")
                a2, b2 = str(s), []
            else:
                b2, a2, t2 = self.ex(f, y, env, "usize")
                if t1 == "W64":
                    a2 = "(%s mod 64)" % paren(a2)
                else:
                    f.impure = True
                    v = f.fresh()
                    b2 = b2 + ["do %s <- chksh %d %s ;" % (v, WIDTH[t1], paren(a2))]
                    a2 = v
            if x[0] == "num":        # constant folding of literal-only shifts
                val = (x[1] << int(a2)) if (op == "<<" and y[0] == "num") else None
                if val is not None:
                    if val >= (1 << WIDTH[t1]):
                        raise Unsupported("literal shift overflows")
                    return b1 + b2, str(val), t1
            if op == "<<":
                fn = "shl128" if t1 == "u128" else "shl64"
            else:
                fn = "shr128" if t1 == "u128" else "shr64"
            return b1 + b2, "(%s %s %s)" % (fn, paren(a1), paren(a2)), t1
        # literal typing: take the type of the other operand
        wx = want if op in ("+", "-", "*", "/", "%", "&", "|", "^") else None
        if x[0] == "num" and not x[2]:
            b2, a2, t2 = self.ex(f, y, env, wx)
            b1, a1, t1 = self.ex(f, x, env, t2)
        else:
            b1, a1, t1 = self.ex(f, x, env, wx)
            b2, a2, t2 = self.ex(f, y, env, t1)
        if t1 == "lit":
            t1 = t2
        if t2 == "lit":
            t2 = t1
        if t1 == "lit":
            t1 = t2 = want if isint(want) else "usize"
        if t1 != t2:
            raise Unsupported("operand types %s %s %s" % (t1, op, t2))
        bs = b1 + b2
        if t1 == "i8b":
            if op != "-":
                raise Unsupported("i8 arithmetic other than the difference of two bools")
            return bs, "(%s - %s)" % (paren(a1), paren(a2)), "i8"
        if t1 == "uint":
            if op in ("==", "!="):          # #[derive(PartialEq)] on the limb array
                r = "(list_eqb Z.eqb %s %s)" % (paren(a1), paren(a2))
                return bs, r if op == "==" else "(negb %s)" % r, "bool"
            if op in ("<", "<=", ">", ">=") and "U.cmp" in self.sigs:
                b3, a3, t3 = self.apply(f, "U.cmp", [("__atom", paren(a2))], env, recv=("__atom", paren(a1)))
                pat = {"<": "Lt => true | _ => false", ">": "Gt => true | _ => false",
                       "<=": "Gt => false | _ => true", ">=": "Lt => false | _ => true"}[op]
                return bs + b3, "(match %s with %s end)" % (a3, pat), "bool"
            if op in ("|", "&", "^") and "U." + {"|": "bitor", "&": "bitand", "^": "bitxor"}[op] in self.sigs:
                nm = "U." + {"|": "bitor", "&": "bitand", "^": "bitxor"}[op]
                b3, a3, t3 = self.apply(f, nm, [("__atom", paren(a2))], env, recv=("__atom", paren(a1)))
                return bs + b3, a3, t3
            if op in self.binops:           # impl_bin_op!(Add, add, AddAssign, add_assign, wrapping_add)
                b3, a3, t3 = self.apply(f, "U." + self.binops[op], [("__atom", paren(a2))], env, recv=("__atom", paren(a1)))
                return bs + b3, a3, t3
            raise Unsupported("operator %s on Uint" % op)
        if op in ("==", "!=") and t1 == ("option", "u64") and y[0] == "call" and y[1] == ("var", "Some") \
                and len(y[2]) == 1:
            # `xs.last() != Some(&v)`
            yv = y[2][0]
            while yv[0] == "un" and yv[1] == "&":
                yv = yv[2]
            b3, a3, t3 = self.ex(f, yv, env, "u64")
            r = "(match %s with Some x_ => x_ =? %s | None => false end)" % (a1, paren(a3))
            return b1 + b3, r if op == "==" else "(negb %s)" % r, "bool"
        if op in ("==", "!=") and t1 == "matrix":       # #[derive(PartialEq)] on the tuple struct
            r = "(mat_eqb %s %s)" % (paren(a1), paren(a2))
            return bs, r if op == "==" else "(negb %s)" % r, "bool"
        if op in ("==", "!=") and t1 == "ordering":
            r = "(match %s, %s with Lt, Lt | Eq, Eq | Gt, Gt => true | _, _ => false end)" % (a1, a2)
            return bs, r if op == "==" else "(negb %s)" % r, "bool"
        if op in ("==", "!=", "<", ">", "<=", ">="):
            if t1 == "bool":
                r = "(Bool.eqb %s %s)" % (paren(a1), paren(a2))
                if op == "!=":
                    r = "(negb %s)" % r
                elif op != "==":
                    raise Unsupported("ordering on bool")
                return bs, r, "bool"
            r = {"==": "(%s =? %s)" % (a1, a2) if False else "(%s =? %s)" % (paren(a1), paren(a2)),
                 "!=": "(negb (%s =? %s))" % (paren(a1), paren(a2)),
                 "<": "(%s <? %s)" % (paren(a1), paren(a2)),
                 "<=": "(%s <=? %s)" % (paren(a1), paren(a2)),
                 ">": "(%s <? %s)" % (paren(a2), paren(a1)),
                 ">=": "(%s <=? %s)" % (paren(a2), paren(a1))}[op]
            return bs, r, "bool"
        if op in ("&", "|", "^"):
            if t1 == "bool":
                fn = {"&": "andb", "|": "orb", "^": "xorb"}[op]
            else:
                fn = {"&": "Z.land", "|": "Z.lor", "^": "Z.lxor"}[op]
            return bs, "(%s %s %s)" % (fn, paren(a1), paren(a2)), t1
        if op in ("+", "-", "*"):
            s = "%s %s %s" % (paren(a1), op, paren(a2))
            if t1 == "W64":
                return bs, "(wrap (%s))" % s, t1
            if x[0] == "num" and y[0] == "num":
                val = {"+": x[1] + y[1], "-": x[1] - y[1], "*": x[1] * y[1]}[op]
                if not (0 <= val < (1 << WIDTH[t1])):
                    raise Unsupported("literal arithmetic overflows")
                return bs, str(val), t1
            b3, v = self.chk(f, t1, s)
            return bs + b3, v, t1
        if op in ("/", "%"):
            if t1 == "W64":
                raise Unsupported("Wrapping division")
            if y[0] == "num" and y[1] != 0:
                return bs, "(%s %s %s)" % (paren(a1), "/" if op == "/" else "mod", paren(a2)), t1
            f.impure = True
            v = f.fresh()
            return bs + ["do %s <- chkdiv %s ;" % (v, paren(a2))], \
                "(%s %s %s)" % (paren(a1), "/" if op == "/" else "mod", v), t1
        raise Unsupported("binary " + op)

    def if_expr(self, f, e, env, want):
        bc, ac, _ = self.ex(f, e[1], env, "bool")
        if e[3] is None:
            raise Unsupported("if expression without else")
        b, a, t = self.valued(f, [e[2], e[3]], ac, env, want)
        return bc + b, a, t

    def valued(self, f, blocks, cond, env, want):
        """One value block (`{ stmts; tail }`, cond = None) or the two branches of an `if` expression.
        Outer variables assigned inside (directly, through a translated callee's `&mut` argument, ...)
        leave the block together with the value: `do w <- (...) ; let '(v, x1, ..) := w in`."""
        vs = []
        for blk in blocks:
            for v in self.assigned(blk):
                if v in env and v not in vs:
                    vs.append(v)
        codes, ty = [], None
        for blk in blocks:
            res = {}

            def fin(env2, blk=blk, res=res):
                if blk[2] is None:
                    raise Unsupported("block without value")
                if blk[2][0] == "macro" and blk[2][1] in ("panic", "unreachable", "todo"):
                    f.impure = True
                    return "Panic"
                b, a, t = self.ex(f, blk[2], env2, want or ty)
                res["t"] = t
                out = "(" + ", ".join([a] + [env2[v][0] for v in vs]) + ")" if vs else a
                return (" ".join(b) + " " if b else "") + "Val %s" % out
            code = "(" + self.stmts(f, blk[1], 0, dict(env), fin, None) + ")"
            codes.append(code)
            if ty is not None and res.get("t") is not None and res["t"] != ty:
                raise Unsupported("if branches of different types")
            ty = ty or res.get("t")
        f.impure = True
        w = f.fresh()
        expr = codes[0] if cond is None else "(if %s then %s else %s)" % (cond, codes[0], codes[1])
        if not vs:
            return ["do %s <- %s ;" % (w, expr)], w, ty
        val = f.fresh()
        return ["do %s <- %s ; let '(%s) := %s in" % (w, expr, ", ".join([val] + [env[v][0] for v in vs]), w)], val, ty

    def mpat(self, p, ty, env):
        if p[0] == "pvar":
            env[p[1]] = (p[1], ty)
            return p[1]
        if p[0] == "pwild":
            return "_"
        if p[0] == "plit":
            return p[1]
        if p[0] == "psome":
            return "(Some %s)" % self.mpat(p[1], ty[1] if ty and ty[0] == "option" else None, env)
        if ty[0] != "tuple" or len(ty[1]) != len(p[1]):
            raise Unsupported("match pattern vs type")
        return "(" + ", ".join(self.mpat(q, t, env) for q, t in zip(p[1], ty[1])) + ")"

    def match_expr(self, f, e, env, want):
        bs, a, t = self.ex(f, e[1], env)
        arms, rty = [], None
        for pat, body in e[2]:
            env2 = dict(env)
            ps = self.mpat(pat, t, env2)
            code, bt = self.block_val(f, body, env2, want or rty)
            rty = rty or bt
            arms.append("| %s => %s" % (ps, code))
        f.impure = True
        v = f.fresh()
        return bs + ["do %s <- (match %s with %s end) ;" % (v, a, " ".join(arms))], v, rty

    def block_val(self, f, blk, env, want):
        """A block used as a value: emitted as an outcome expression `binds; Val atom`."""
        res = {}

        def fin(env2):
            if blk[2] is None:
                raise Unsupported("block without value")
            if blk[2][0] == "macro" and blk[2][1] in ("panic", "unreachable", "todo"):
                f.impure = True
                return "Panic"
            b, a, t = self.ex(f, blk[2], env2, want)
            res["t"] = t
            return " ".join(b) + " Val %s" % a if b else "Val %s" % a
        s = self.stmts(f, blk[1], 0, env, fin, None)
        return "(" + s + ")", res.get("t")

    def call(self, f, e, env, want):
        fe, args = e[1], e[2]
        name = fe[1] if fe[0] == "var" else "::".join(fe[1])
        if name in ("unlikely", "likely"):
            return self.ex(f, args[0], env, want)
        if name == "Some":
            b, a, t = self.ex(f, args[0], env, want[1] if (want and want[0] == "option") else None)
            return b, "(Some %s)" % paren(a), ("option", t)
        if name in ("core::slice::from_raw_parts_mut", "slice::from_raw_parts_mut") and len(args) == 2 \
                and args[0][0] == "mcall" and args[0][2] == "cast::<u64>" and not args[0][3] \
                and args[0][1][0] == "mcall" and args[0][1][2] == "as_mut_ptr" and not args[0][1][3]:
            # the first n words of a flat u64 buffer; n beyond the buffer is undefined behaviour in Rust and a
            # Panic here.  Only allowed for a buffer that is not used again under its own name.
            b0, a0, t0 = self.ex(f, args[0][1][1], env)
            if t0 != ("flatbuf", "u64"):
                raise Unsupported("from_raw_parts_mut of %s" % (t0,))
            b1, a1, t1 = self.ex(f, args[1], env, "usize")
            f.impure = True
            v = f.fresh()
            return b0 + b1 + ["do %s <- (if %s <=? lenZ %s then Val (firstn (Z.to_nat %s) %s) else Panic) ;" % (
                v, paren(a1), paren(a0), paren(a1), paren(a0))], v, ("slice", "u64")
        if name == "Wrapping":
            b, a, t = self.ex(f, args[0], env, "u64")
            return b, a, "W64"
        if name == "Uint::from" and len(args) == 1 and "BITS" in env:
            # From<u64> for Uint (panics when the value does not fit): NOT translated; Model/Conv.v
            b, a, t = self.ex(f, args[0], env, "u64")
            if t != "u64":
                raise Unsupported("Uint::from of %s" % (t,))
            f.impure = True
            v = f.fresh()
            return b + ["do %s <- Conv.from_of (Conv.try_from_u64 BITS %s) ;" % (v, paren(a))], v, "uint"
        if "::" in name and self.alias.get(name.split("::")[0], name.split("::")[0]) == "Matrix" \
                and ("M." + name.split("::", 1)[1]) in self.sigs:
            return self.apply(f, "M." + name.split("::", 1)[1], args, env)
        if (name == "Matrix" or (name == "Self" and f.selfty == "matrix")) and len(args) == 5:
            # the tuple struct Matrix(u64, u64, u64, u64, bool)
            bs, atoms = [], []
            for a_, w_ in zip(args, ["u64"] * 4 + ["bool"]):
                b, a, t = self.ex(f, a_, env, w_)
                if t not in (w_, "lit"):
                    raise Unsupported("Matrix field of type %s" % (t,))
                bs += b
                atoms.append(a)
            return bs, "(" + ", ".join(atoms) + ")", "matrix"
        if name in ("core::cmp::min", "cmp::min") and len(args) == 2:
            b1, a1, t1 = self.ex(f, args[0], env, "usize")
            b2, a2, t2 = self.ex(f, args[1], env, t1)
            return b1 + b2, "(Z.min %s %s)" % (paren(a1), paren(a2)), t1
        if name == "i8::from" and len(args) == 1:
            b, a, t = self.ex(f, args[0], env, "bool")
            if t != "bool":
                raise Unsupported("i8::from of a non-bool")
            return b, "(b2z %s)" % paren(a), "i8b"        # an i8 known to be 0 or 1
        if name in ("core::hint::unreachable_unchecked", "hint::unreachable_unchecked", "unreachable_unchecked"):
            raise Unsupported("unreachable_unchecked as a value")
        if name == "Self::from" and f.selfty == "uint" and len(args) == 1 and args[0][0] == "num" and not args[0][2]:
            # `Self::from(2)`: an integer literal with no other constraint is an i32, so this is
            # From<i32> for Uint (TryFrom<i32>, panicking): NOT translated; Model/Conv.v
            if not (0 <= args[0][1] < 2 ** 31):
                raise Unsupported("literal outside i32")
            f.impure = True
            v = f.fresh()
            return ["do %s <- Conv.from_of (Conv.try_from_prim BITS {| Conv.pw := 32; Conv.psigned := true |} %d) ;"
                    % (v, args[0][1])], v, "uint"
        if name in ("u128::from", "Self::from", "u64::from", "usize::from"):
            to = name.split("::")[0]
            if to == "Self":
                to = f.selfty
            b, a, t = self.ex(f, args[0], env)
            if t == "bool":
                return b, "(b2z %s)" % a, to
            if WIDTH.get(t, 999) <= WIDTH[to]:
                return b, a, to
            raise Unsupported("narrowing from()")
        if fe[0] == "path" and len(fe[1]) == 2 and (fe[1][0] == "u128" or (fe[1][0] == "Self" and f.selfty == "u128")):
            name = "dw_" + fe[1][1]
        name = self.alias.get(name, name)
        if name.startswith("Self::") and f.selfty == "uint" and ("U." + name[6:]) in self.sigs:
            return self.apply(f, "U." + name[6:], args, env)
        if name.startswith("Self::") and f.selfty == "matrix" and ("M." + name[6:]) in self.sigs:
            return self.apply(f, "M." + name[6:], args, env)
        if name in ("crate::algorithms::cmp", "algorithms::cmp", "cmp") and "cmp" not in self.sigs:
            # slice comparison: NOT translated; Model/Add.v limbs_cmp (tie: C15 / C04 correspondence)
            b1, a1, _ = self.ex(f, args[0], env)
            b2, a2, _ = self.ex(f, args[1], env)
            return b1 + b2, "(Add.limbs_cmp %s %s)" % (paren(a1), paren(a2)), "ordering"
        if name == "algorithms::div":
            # top-level slice division: NOT translated; Model/Div.v div_kernel (tie: C14 correspondence)
            ts = []
            for a in args[:2]:
                t = a
                while t[0] in ("un", "field"):
                    t = t[2] if t[0] == "un" else t[1]
                if t[0] != "var":
                    raise Unsupported("&mut slice argument")
                ts.append(env[t[1]][0])
            f.impure = True
            v = f.fresh()
            return ["do %s <- Div.div_kernel %s %s ; let '(%s, %s) := %s in" % (v, ts[0], ts[1], ts[0], ts[1], v)], "tt", ("tuple", [])
        if name == "addmul" and "addmul" not in self.sigs:
            name = "algorithms::addmul"
        if name in ("algorithms::addmul", "algorithms::addmul_n"):
            # limb-slice kernels: NOT translated; the hand-written model function of Model/Limbs.v is
            # called (its own tie to the code is the C15 correspondence run)
            tgt = args[0]
            while tgt[0] in ("un", "field"):
                tgt = tgt[2] if tgt[0] == "un" else tgt[1]
            if tgt[0] != "var":
                raise Unsupported("&mut slice argument")
            b1, a1, _ = self.ex(f, args[1], env)
            b2, a2, _ = self.ex(f, args[2], env)
            nm = env[tgt[1]][0]
            if name.endswith("addmul"):
                o = f.fresh()
                return b1 + b2 + ["let '(%s, %s) := Limbs.addmul %s %s %s in" % (nm, o, nm, paren(a1), paren(a2))], o, "bool"
            f.impure = True
            return b1 + b2 + ["do %s <- Limbs.addmul_n %s %s %s ;" % (nm, nm, paren(a1), paren(a2))], "tt", ("tuple", [])
        if name == "reduce1_carry" and "reduce1_carry" not in self.sigs:
            # final conditional subtraction (`zip` iterators): NOT translated; Model/Redc.v reduce1_carry
            bs, atoms = [], []
            for a in args:
                b, x, _ = self.ex(f, a, env)
                bs += b
                atoms.append(paren(x))
            return bs, "(Redc.reduce1_carry %s)" % " ".join(atoms), ("arr", "u64", "N")
        if name not in self.sigs and name.startswith("algorithms::") and name[12:] in self.sigs:
            name = name[12:]
        if name not in self.sigs and name.startswith("crate::") and name[7:] in self.sigs:
            name = name[7:]
        if name not in self.sigs:
            raise Unsupported("call to untranslated function " + name)
        return self.apply(f, name, args, env)

    def apply(self, f, name, args, env, recv=None):
        gname, ptys, rty, pure, mutidx, uintm = self.sigs[name]
        bs, atoms = [], (["BITS", "LIMBS"] if uintm else [])
        allargs = ([recv] if recv is not None else []) + list(args)
        ng = self.ngen.get(name, 0)
        if ng == 2 and len(allargs) + 2 == len(ptys) and not uintm and "BITS" in env and "LIMBS" in env:
            allargs = [("__atom", "BITS"), ("__atom", "LIMBS")] + allargs
        if ng == 1 and len(allargs) + 1 == len(ptys) and ptys[0] == "usize":
            # one const generic N, not written at the call: it is the length of the first `[u64; N]` argument
            for a, pt in zip(allargs, ptys[1:]):
                if isinstance(pt, tuple) and pt[0] == "arr":
                    b0, a0, t0 = self.ex(f, a, env, pt)
                    if b0:
                        raise Unsupported("array argument with checks")
                    allargs = [("__atom", "(lenZ %s)" % paren(a0))] + allargs
                    break
        if len(allargs) != len(ptys):
            raise Unsupported("arity of " + name)
        if uintm and "BITS" not in env:
            raise Unsupported("Uint method called outside a Uint impl")
        windows = {}
        for k_, (a, pt) in enumerate(zip(allargs, ptys)):
            if isinstance(a, tuple) and a and a[0] == "__atom":
                atoms.append(a[1])
                continue
            tg = a
            while isinstance(tg, tuple) and tg and tg[0] == "un" and tg[1] in ("&", "*"):
                tg = tg[2]
            if k_ in mutidx and isinstance(tg, tuple) and tg and tg[0] == "slice":
                # `f(&mut xs[lo..hi], ..)`: the callee works on the window, which is written back afterwards
                if tg[1][0] != "var":
                    raise Unsupported("&mut sub-slice of a non-variable")
                b, sa, lo, hi = self.slice_bounds(f, tg, env)
                wv = f.fresh()
                f.impure = True
                bs += b + ["do %s <- subslice %s %s %s ;" % (wv, paren(sa), paren(lo), paren(hi))]
                atoms.append(wv)
                windows[k_] = (tg[1][1], lo)
                continue
            b, s, t = self.ex(f, a, env, pt if not (isinstance(pt, tuple) and pt[0] == "mutref") else pt[1])
            bs += b
            atoms.append(paren(s))
        app = "%s %s" % (gname, " ".join(atoms))
        if mutidx:
            # callee returns (result, new values of its &mut parameters...)
            f.impure = True
            v = f.fresh()
            outs, post = [], []
            for k, (a, pt) in enumerate(zip(allargs, ptys)):
                if k in mutidx:
                    tgt = a
                    while tgt[0] == "un" and tgt[1] in ("&", "*"):
                        tgt = tgt[2]
                    nv = f.fresh()
                    outs.append(nv)
                    if k in windows:
                        nm, lo = windows[k]
                        post.append("let %s := splice %s %s %s in" % (env[nm][0], env[nm][0], paren(lo), nv))
                    elif tgt[0] == "index" and tgt[1][0] == "var":
                        bi, ai, _ = self.ex(f, tgt[2], env, "usize")
                        if bi:
                            raise Unsupported("computed index of a &mut element")
                        nm = tgt[1][1]
                        post.append("let %s := upd %s %s %s in" % (env[nm][0], env[nm][0], paren(ai), nv))
                    elif tgt[0] == "var":
                        post.append("let %s := %s in" % (env[tgt[1]][0], nv))
                    else:
                        raise Unsupported("&mut argument")
            if rty == ("tuple", []):
                r, names = "tt", outs
            else:
                r = f.fresh()
                names = [r] + outs
            pat = names[0] if len(names) == 1 else "(" + ", ".join(names) + ")"
            return bs + ["do %s <- %s ; let %s%s := %s in" % (v, app, "'" if len(names) > 1 else "", pat, v)] + post, r, rty
        if pure:
            return bs, "(" + app + ")", rty
        f.impure = True
        v = f.fresh()
        return bs + ["do %s <- %s ;" % (v, app)], v, rty

    def mcall(self, f, e, env, want):
        recv, m, args = e[1], e[2], e[3]
        if m == "get_unchecked" and recv[0] == "var" and recv[1] in env and env[recv[1]][1][0:1] == ("arr",):
            b, a, t = self.ex(f, args[0], env, "usize")
            f.impure = True
            v = f.fresh()
            return b + ["do %s <- tbl %s %s ;" % (v, env[recv[1]][0], paren(a))], v, env[recv[1]][1][1]
        if m in ("get_unchecked", "get_unchecked_mut") and self.elem_ref(e) is not None and recv[1] in env \
                and env[recv[1]][1] == ("slice", "u64"):
            # out of bounds = undefined behaviour in Rust; the translation makes it a Panic
            b, a, t = self.ex(f, args[0], env, "usize")
            f.impure = True
            v = f.fresh()
            return b + ["do %s <- idx %s %s ;" % (v, env[recv[1]][0], paren(a))], v, "u64"
        if m == "unwrap_or_default" and recv[0] == "mcall" and recv[2] == "copied" and recv[1][0] == "mcall" \
                and recv[1][2] == "get" and len(recv[1][3]) == 1:
            b0, a0, t0 = self.ex(f, recv[1][1], env)
            if not (isinstance(t0, tuple) and t0[0] in ("slice", "arr")):
                raise Unsupported(".get on a non-slice")
            b1, a1, _ = self.ex(f, recv[1][3][0], env, "usize")
            return b0 + b1, "(get_or_default %s %s)" % (paren(a0), paren(a1)), "u64"
        if m in ("any", "all") and len(args) == 1 and args[0][0] == "closure" and len(args[0][1]) == 1 \
                and recv[0] == "mcall" and recv[2] == "iter" and not recv[3]:
            b0, a0, t0 = self.ex(f, recv[1], env)
            if not (isinstance(t0, tuple) and t0[0] in ("slice", "arr")):
                raise Unsupported(".iter() on a non-slice")
            x = args[0][1][0]
            env2 = dict(env)
            env2[x] = (x, "u64")
            bp, ap, tp = self.ex(f, args[0][2], env2, "bool")
            if bp or tp != "bool":
                raise Unsupported("closure body with checks")
            return b0, "(%s (fun %s => %s) %s)" % ("existsb" if m == "any" else "forallb", x, ap, paren(a0)), "bool"
        if m == "rposition" and len(args) == 1 and args[0][0] == "closure" and len(args[0][1]) == 1 \
                and recv[0] == "mcall" and recv[2] == "iter" and not recv[3]:
            b0, a0, t0 = self.ex(f, recv[1], env)
            if not (isinstance(t0, tuple) and t0[0] in ("slice", "arr")):
                raise Unsupported(".iter() on a non-slice")
            x = args[0][1][0]
            env2 = dict(env)
            env2[x] = (x, "u64")
            bp, ap, tp = self.ex(f, args[0][2], env2, "bool")
            if bp or tp != "bool":
                raise Unsupported("closure body with checks")
            return b0, "(iter_rposition (fun %s => %s) %s)" % (x, ap, paren(a0)), ("option", "usize")
        if m == "expect" and len(args) == 1 and args[0][0] == "str":
            b0, a0, t0 = self.ex(f, recv, env)
            if not (isinstance(t0, tuple) and t0[0] == "option"):
                raise Unsupported(".expect on a non-option")
            f.impure = True
            v = f.fresh()
            return b0 + ["do %s <- (match %s with Some x_ => Val x_ | None => Panic end) ;" % (v, a0)], v, t0[1]
        if m == "unwrap_or" and len(args) == 1 and recv[0] == "mcall" and recv[2] == "rposition" and len(recv[3]) == 1 \
                and recv[3][0][0] == "closure" and len(recv[3][0][1]) == 1 and recv[1][0] == "mcall" \
                and recv[1][2] == "iter" and not recv[1][3]:
            # xs.iter().rposition(|&x| p).unwrap_or(d)
            b0, a0, t0 = self.ex(f, recv[1][1], env)
            if not (isinstance(t0, tuple) and t0[0] in ("slice", "arr")):
                raise Unsupported(".iter() on a non-slice")
            x = recv[3][0][1][0]
            env2 = dict(env)
            env2[x] = (x, "u64")
            bp, ap, tp = self.ex(f, recv[3][0][2], env2, "bool")
            if bp or tp != "bool":
                raise Unsupported("closure body with checks")
            bd, ad, td = self.ex(f, args[0], env, "usize")
            return b0 + bd, "(match iter_rposition (fun %s => %s) %s with Some n_ => n_ | None => %s end)" % (
                x, ap, paren(a0), paren(ad)), "usize"
        if m == "unwrap_or" and len(args) == 1 and recv[0] == "mcall" and recv[2] == "copied" and not recv[3] \
                and recv[1][0] == "mcall" and recv[1][2] == "first" and not recv[1][3]:
            # xs.first().copied().unwrap_or(d)
            b0, a0, t0 = self.ex(f, recv[1][1], env)
            if not (isinstance(t0, tuple) and t0[0] in ("slice", "arr")):
                raise Unsupported(".first() on a non-slice")
            bd, ad, td = self.ex(f, args[0], env, "u64")
            return b0 + bd, "(hd %s %s)" % (paren(ad), paren(a0)), "u64"
        if m == "map_or" and len(args) == 2 and args[1][0] == "closure" and len(args[1][1]) == 1 \
                and recv[0] == "mcall" and recv[2] == "position" and len(recv[3]) == 1 and recv[3][0][0] == "closure" \
                and len(recv[3][0][1]) == 1 and recv[1][0] == "mcall" and recv[1][2] == "iter" and not recv[1][3]:
            # xs.iter().position(|&x| p).map_or(d, |n| e)
            b0, a0, t0 = self.ex(f, recv[1][1], env)
            if not (isinstance(t0, tuple) and t0[0] in ("slice", "arr")):
                raise Unsupported(".iter() on a non-slice")
            x = recv[3][0][1][0]
            env2 = dict(env)
            env2[x] = (x, "u64")
            bp, ap, tp = self.ex(f, recv[3][0][2], env2, "bool")
            if bp or tp != "bool":
                raise Unsupported("closure body with checks")
            bd, ad, td = self.ex(f, args[0], env, want)
            n = args[1][1][0]
            env3 = dict(env)
            env3[n] = (n, "usize")
            bn, an, tn = self.ex(f, args[1][2], env3, td if td != "lit" else want)
            f.impure = True
            v = f.fresh()
            return b0 + bd + ["do %s <- (match iter_position (fun %s => %s) %s with None => Val %s | Some %s => %s Val %s end) ;"
                              % (v, x, ap, paren(a0), paren(ad), n, " ".join(bn), paren(an))], v, tn
        if m == "unwrap" and not args and recv[0] == "mcall" and recv[2] == "try_into" and not recv[3] and want in ("u64", "u128"):
            # TryFrom<Uint> for u64 / u128, unwrapped: NOT translated; Model/Conv.v
            b0, a0, t0 = self.ex(f, recv[1], env)
            if t0 != "uint" or "BITS" not in env:
                raise Unsupported("try_into on %s" % (t0,))
            f.impure = True
            v = f.fresh()
            if want == "u64":
                conv = "Conv.to_of (Conv.try_to_int BITS {| Conv.pw := 64; Conv.psigned := false |} %s)" % paren(a0)
            else:
                conv = "Conv.to_of (Conv.try_to_128 BITS {| Conv.pw := 128; Conv.psigned := false |} %s)" % paren(a0)
            return b0 + ["do %s <- %s ;" % (v, conv)], v, want
        br, ar, tr_ = self.ex(f, recv, env, want if m.startswith("wrapping_") else None)
        if tr_ == ("iter", "uint") and m == "copied" and not args:
            return br, ar, tr_
        if tr_ == ("iter", "uint") and m == "fold" and len(args) == 2 and args[1][0] == "path" \
                and args[1][1][0] == "Self" and len(args[1][1]) == 2 and ("U." + args[1][1][1]) in self.sigs:
            # `iter.fold(init, Self::g)` over an iterator of Uint: a left fold of the binary method g
            gname_, ptys_, rty_, pure_, mut_, uintm_ = self.sigs["U." + args[1][1][1]]
            if ptys_ != ["uint", "uint"] or rty_ != "uint" or mut_ or not uintm_:
                raise Unsupported("fold with " + args[1][1][1])
            bi, ai, ti = self.ex(f, args[0], env, "uint")
            f.impure = True
            v = f.fresh()
            step = ("(fun acc_ x_ => Val (%s BITS LIMBS acc_ x_))" if pure_ else "(fun acc_ x_ => %s BITS LIMBS acc_ x_)") % gname_
            return br + bi + ["do %s <- fold_outcome %s %s %s ;" % (v, step, paren(ar), paren(ai))], v, "uint"
        if tr_ == "matrix" and ("M." + m) in self.sigs:
            b2, a2, t2 = self.apply(f, "M." + m, args, env, recv=("__atom", paren(ar)))
            return br + b2, a2, t2
        if m == "is_empty" and isinstance(tr_, tuple) and tr_[0] == "slice":
            return br, "(lenZ %s =? 0)" % paren(ar), "bool"
        if m == "last" and isinstance(tr_, tuple) and tr_[0] == "slice" and not args:
            return br, "(nth_error %s (Z.to_nat (lenZ %s - 1)))" % (paren(ar), paren(ar)), ("option", "u64")
        if tr_ == "uint":
            if m == "as_limbs":
                return br, ar, ("slice", "u64")
            if m == "len" and not args:           # only the desugared `for x in &mut u.limbs` produces this
                return br, "(lenZ %s)" % paren(ar), "usize"
            m = self.opmethods.get(m, m)
            if "U." + m not in self.sigs:
                raise Unsupported("Uint method ." + m)
            if 0 in self.sigs["U." + m][4]:          # `&mut self` method: the receiver must be a variable
                if recv[0] != "var":
                    raise Unsupported("&mut self method on a non-variable")
                return self.apply(f, "U." + m, args, env, recv=recv)
            b2, a2, t2 = self.apply(f, "U." + m, args, env, recv=("__atom", paren(ar)))
            return br + b2, a2, t2
        if m == "unwrap_or_default" and tr_ == ("option", "uint") and "BITS" in env:
            return br, "(match %s with Some x_ => x_ | None => uZERO BITS end)" % ar, "uint"
        if m == "unwrap" and isinstance(tr_, tuple) and tr_[0] == "option":
            f.impure = True
            v = f.fresh()
            return br + ["do %s <- (match %s with Some x_ => Val x_ | None => Panic end) ;" % (v, ar)], v, tr_[1]
        if m == "cmp" and tr_ in ("usize", "u64", "u128") and len(args) == 1:
            b, a, t = self.ex(f, args[0], env, tr_)
            return br + b, "(Z.compare %s %s)" % (paren(ar), paren(a)), "ordering"
        if m == "len" and isinstance(tr_, tuple) and tr_[0] in ("slice", "arr"):
            return br, "(lenZ %s)" % paren(ar), "usize"
        if m == "saturating_sub" and tr_ in ("usize", "u64") and len(args) == 1:
            b, a, t = self.ex(f, args[0], env, tr_)
            return br + b, "(Z.max 0 (%s - %s))" % (paren(ar), paren(a)), tr_
        if m in ("wrapping_add", "wrapping_sub", "wrapping_mul"):
            b, a, t = self.ex(f, args[0], env, tr_)
            op = {"wrapping_add": "+", "wrapping_sub": "-", "wrapping_mul": "*"}[m]
            w = "wrap128" if tr_ == "u128" else "wrap"
            return br + b, "(%s (%s %s %s))" % (w, paren(ar), op, paren(a)), tr_
        if m == "wrapping_neg":
            w = "wrap128" if tr_ == "u128" else "wrap"
            return br, "(%s (0 - %s))" % (w, paren(ar)), tr_
        if m in ("overflowing_add", "overflowing_sub"):
            b, a, t = self.ex(f, args[0], env, tr_)
            fn = {"u64": {"overflowing_add": "ov_add", "overflowing_sub": "ov_sub"},
                  "u128": {"overflowing_add": "ov_add128", "overflowing_sub": "ov_sub128"}}[tr_][m]
            return br + b, "(%s %s %s)" % (fn, paren(ar), paren(a)), ("tuple", [tr_, "bool"])
        if m == "leading_zeros" and tr_ == "u64":
            return br, "(clz64 %s)" % paren(ar), "u32"
        if m == "leading_zeros" and tr_ == "u128":
            return br, "(clz128 %s)" % paren(ar), "u32"
        if m == "trailing_zeros" and tr_ == "u64":
            return br, "(ctz64 %s)" % paren(ar), "u32"
        if m == "trailing_ones" and tr_ == "u64":
            return br, "(ctz64 (B - 1 - %s))" % paren(ar), "u32"
        if m == "reverse_bits" and tr_ == "u64":
            return br, "(bitrev64 %s)" % paren(ar), "u64"
        if m == "count_ones" and tr_ == "u64":
            return br, "(popcnt64 %s)" % paren(ar), "u32"
        if m in ("high", "low", "split") and tr_ == "u128":
            b2, a2, t2 = self.apply(f, "dw_" + m, [], env, recv=("__atom", paren(ar)))
            return br + b2, a2, t2
        raise Unsupported("method ." + m)

    # ---- statements, CPS: `fin(env)` yields the code after the last statement
    def assigned(self, blk):
        """Variables assigned (not declared) in a block, in order of first assignment."""
        out, declared = [], set()

        def pv(p):
            if p[0] == "pvar":
                declared.add(p[1])
            else:
                for q in p[1]:
                    pv(q)

        refs = {}

        def lhs(e):
            er = self.elem_ref(e)
            if er is not None:
                e = ("var", er[0])
            if e[0] == "var" and e[1] in refs:
                e = ("var", refs[e[1]])
            if e[0] == "var":
                if e[1] not in declared and e[1] not in out:
                    out.append(e[1])
            elif e[0] == "un" and e[1] == "*":
                lhs(e[2])
            elif e[0] in ("index", "field"):
                lhs(e[1])
            elif e[0] == "tuple":
                for x in e[1]:
                    lhs(x)
            else:
                raise Unsupported("assignment target")

        def walk(b):
            for s in b[1]:
                if s[0] in ("let", "letdecl"):
                    pv(s[1])
                    if s[0] == "let" and s[1][0] == "pvar" and self.elem_ref(s[3]) is not None:
                        refs[s[1][1]] = self.elem_ref(s[3])[0]
                elif s[0] == "assign":
                    lhs(s[1])
                elif s[0] == "expr" and s[1][0] == "if":
                    walk(s[1][2])
                    if s[1][3]:
                        walk(s[1][3])
                elif s[0] == "expr" and s[1][0] == "while":
                    walk(s[1][2])
                elif s[0] == "expr" and s[1][0] == "for":
                    walk(s[1][4])
                elif s[0] == "expr" and s[1][0] == "foreach":
                    walk(self.desugar_foreach(s[1])[4])
                elif s[0] == "expr" and s[1][0] in ("fordown", "fordownrange"):
                    walk(s[1][4])
                elif s[0] == "expr" and s[1][0] == "mcall" and s[1][1][0] == "var" \
                        and 0 in self.sigs.get("U." + s[1][2], (0, 0, 0, 0, set()))[4]:
                    lhs(s[1][1])
                if s[0] == "expr" and s[1][0] == "call" and s[1][1][0] == "path" and s[1][1][1][0] == "u64" \
                        and s[1][1][1][-1] in ("bitor_assign", "bitand_assign", "bitxor_assign"):
                    t0 = s[1][2][0]
                    while t0[0] == "un":
                        t0 = t0[2]
                    lhs(t0)
                if s[0] == "expr" and s[1][0] == "mcall" and s[1][2] == "reverse" and not s[1][3]:
                    t0 = s[1][1]
                    while t0[0] in ("un", "field"):
                        t0 = t0[2] if t0[0] == "un" else t0[1]
                    lhs(t0)
                if s[0] == "expr" and s[1][0] == "call" and s[1][1] == ("var", "swap") and len(s[1][2]) == 2:
                    for t0 in s[1][2]:
                        while t0[0] == "un":
                            t0 = t0[2]
                        lhs(t0)
                if s[0] == "expr" and s[1][0] == "mcall" and ("M." + s[1][2]) in self.sigs:
                    sg = self.sigs["M." + s[1][2]]
                    off = self.ngen.get("M." + s[1][2], 0) + 1
                    for k_ in sg[4]:
                        if 0 <= k_ - off < len(s[1][3]):
                            t0 = s[1][3][k_ - off]
                            while t0[0] == "un":
                                t0 = t0[2]
                            lhs(t0)
                for x in ([s[-1]] if s[0] in ("let", "assign", "expr") else []):
                    self.kernel_targets(x, lhs)
                    self.callee_targets(x, lhs)
        walk(blk)
        return out

    @staticmethod
    def unblock(e):
        while isinstance(e, tuple) and e and e[0] == "block" and not e[1] and e[2] is not None:
            e = e[2]
        return e

    def elem_ref(self, e):
        """`xs.get_unchecked(E)` / `xs.get_unchecked_mut(E)` (possibly inside `unsafe { }`) on a slice
        variable: (slice variable, index AST), else None."""
        e = self.unblock(e)
        if isinstance(e, tuple) and e and e[0] == "mcall" and e[2] in ("get_unchecked", "get_unchecked_mut") \
                and e[1][0] == "var" and len(e[3]) == 1:
            return e[1][1], e[3][0]
        return None

    def has_return(self, x):
        if isinstance(x, tuple):
            if x and x[0] == "return":
                return True
            return any(self.has_return(y) for y in x)
        if isinstance(x, list):
            return any(self.has_return(y) for y in x)
        return False

    def always_exits(self, blk):
        """The block ends by return / continue / break on every path."""
        if blk is None or blk[0] != "block" or blk[2] is not None or not blk[1]:
            return False
        last = blk[1][-1]
        if last[0] == "return" or last in (("expr", ("var", "continue")), ("expr", ("var", "break"))):
            return True
        if last[0] == "expr" and last[1][0] == "if" and last[1][3] is not None:
            return self.always_exits(last[1][2]) and self.always_exits(last[1][3])
        return False

    def has_break(self, x):
        if x == ("var", "break"):
            return True
        if isinstance(x, (tuple, list)):
            return any(self.has_break(y) for y in x)
        return False

    def desugar_foreach(self, e):
        """`for x in xs { .. *x .. }` over a slice `xs` (also `xs.iter_mut()`, `&mut xs`):
        `for i_ in 0..xs.len() { .. xs[i_] .. }`.  The loop variable may shadow the slice's name."""
        x, src, body = e[1], e[2], e[3]
        rev = False
        while True:
            if src[0] == "mcall" and src[2] == "rev" and not src[3]:
                rev = not rev
                src = src[1]
            elif src[0] == "mcall" and src[2] in ("iter_mut", "iter") and not src[3]:
                src = src[1]
            elif src[0] == "un" and src[1] in ("&", "*"):
                src = src[2]
            elif src[0] == "field" and src[2] == "limbs" and src[1][0] == "var":
                src = src[1]                      # the limb array of a Uint variable
            else:
                break
        if src[0] != "var":
            raise Unsupported("for over a non-variable")
        ix = "i_" + x
        elem = ("index", src, ("var", ix))

        def sub(t, shadow=False):
            if isinstance(t, list):
                return [sub(y) for y in t]
            if not isinstance(t, tuple):
                return t
            if t[:2] == ("un", "*") and t[2] == ("var", x):
                return elem
            if t == ("var", x):
                return elem           # by-value iteration, or auto-deref; a shadowed slice name is not reachable
            return tuple(sub(y) for y in t)
        if rev:
            return ("fordown", ix, ("mcall", src, "len", []), None, sub(body))
        return ("for", ix, ("num", 0, None), ("mcall", src, "len", []), sub(body))

    def callee_targets(self, e, lhs):
        """a call of a translated function with `&mut` parameters anywhere in e mutates the argument's root
        variable (`f(&mut xs[a..b])`, `f(&mut x)`, `f(xs)` with xs a `&mut` slice)"""
        if not isinstance(e, tuple):
            return
        if e and e[0] == "call" and e[1][0] in ("var", "path"):
            name = e[1][1] if e[1][0] == "var" else "::".join(e[1][1])
            name = self.alias.get(name, name)
            sig = self.sigs.get(name)
            if sig and sig[4]:
                for k_ in sig[4]:
                    if k_ < len(e[2]):
                        t = e[2][k_]
                        while isinstance(t, tuple) and t and t[0] in ("un", "slice", "index", "field"):
                            t = t[2] if t[0] == "un" else t[1]
                        if t[0] == "var":
                            lhs(t)
        for x in e:
            if isinstance(x, tuple):
                self.callee_targets(x, lhs)
            elif isinstance(x, list):
                for y in x:
                    self.callee_targets(y, lhs)

    def kernel_targets(self, e, lhs):
        """`algorithms::addmul(&mut x.limbs, ..)` anywhere in e mutates x."""
        if not isinstance(e, tuple):
            return
        if e and e[0] == "call" and e[1][0] == "path" and e[1][1][0] == "algorithms" and e[2]:
            t = e[2][0]
            while t[0] in ("un", "field"):
                t = t[2] if t[0] == "un" else t[1]
            lhs(t)
        for x in e:
            if isinstance(x, tuple):
                self.kernel_targets(x, lhs)
            elif isinstance(x, list):
                for y in x:
                    self.kernel_targets(y, lhs)

    def bind_pat(self, p, ty, env):
        """Gallina pattern for a Rust pattern; extends env."""
        if p[0] == "pvar":
            env[p[1]] = (p[1], ty)
            return p[1]
        if ty[0] != "tuple" or len(ty[1]) != len(p[1]):
            raise Unsupported("tuple pattern vs type %s" % (ty,))
        return "(" + ", ".join(self.bind_pat(q, t, env) for q, t in zip(p[1], ty[1])) + ")"

    def stmts(self, f, ss, i, env, fin, retty):
        if i == len(ss):
            return fin(env)
        s = ss[i]
        k = s[0]
        rest = lambda env2: self.stmts(f, ss, i + 1, env2, fin, retty)
        if k == "const":
            b, a, t = self.ex(f, s[3], env, s[2])
            if b:
                raise Unsupported("checked arithmetic in const")
            env = dict(env)
            env[s[1]] = (a, s[2])
            return rest(env)
        if k == "static":
            if s[3][0] != "array":
                raise Unsupported("static initialiser")
            name = "%s_%s" % (f.gname, s[1])
            f.tables.append((name, [x[1] for x in s[3][1]]))
            env = dict(env)
            env[s[1]] = (name, s[2])
            return rest(env)
        if k == "letdecl":
            if s[1][0] != "pvar":
                raise Unsupported("pattern declaration without initialiser")
            env = dict(env)
            env[s[1][1]] = (s[1][1], s[2])      # type None until the first assignment
            return rest(env)
        if k == "let" and s[1][0] == "pvar" and s[3][0] == "iflet" and s[3][1][0] == "psome" and s[3][1][1][0] == "pvar" \
                and s[3][3][2] is not None and not s[3][3][1] and self.always_exits(s[3][4]):
            # `let v = if let Some(i) = E { VIEW } else { ..; return; };`
            bs_, as_, ts_ = self.ex(f, s[3][2], env)
            if not (isinstance(ts_, tuple) and ts_[0] == "option"):
                raise Unsupported("if let on a non-option")
            iv = s[3][1][1][1]
            nviews = len(getattr(f, "views", []))
            else_code = self.stmts(f, s[3][4][1], 0, dict(env), lambda _e: "Panic", retty)
            del getattr(f, "views", [])[nviews:]
            env_t = dict(env)
            env_t[iv] = (iv, ts_[1])
            then_code = self.stmts(f, [("let", s[1], s[2], s[3][3][2])] + ss[i + 1:], 0, env_t, fin, retty)
            f.impure = True
            return "%s match %s with None => (%s) | Some %s =>\n  %s end" % (" ".join(bs_), as_, else_code, iv, then_code)
        if k == "let" and s[1][0] == "pvar" and s[3][0] == "un" and s[3][1] == "&" and s[3][2][0] == "slice" \
                and s[3][2][1][0] == "var" and s[3][2][1][1] in env and env[s[3][2][1][1]][1] == ("slice", "u64") \
                and (s[3][2][1][1] in f.mutouts or any(v["vname"] == s[3][2][1][1] for v in getattr(f, "views", []))):
            # `let v = &mut xs[lo..hi];` on a `&mut` slice parameter (or a view of one): v is a window that is
            # written back into xs wherever the function returns (Fn.mut_outs)
            if getattr(f, "noviews", 0):
                raise Unsupported("sub-slice view inside a block that falls through")
            pname, vname = s[3][2][1][1], s[1][1]
            b_, sa_, lo_, hi_ = self.slice_bounds(f, s[3][2], env)
            if not hasattr(f, "views"):
                f.views = []
            f.impure = True
            env2_ = dict(env)
            lov = "lo_%s%d" % (vname, len(f.views))          # the offset is fixed when the view is taken
            if vname == pname:
                alias = "%s_full%d" % (pname, len(f.views))
                f.views.append({"vname": vname, "pname": pname, "lo": lov, "palias": alias})
                env2_[vname] = (vname, ("slice", "u64"))
                return "%s let %s := %s in let %s := %s in do %s <- subslice %s %s %s ;\n  %s" % (
                    " ".join(b_), alias, sa_, lov, lo_, vname, alias, lov, paren(hi_), rest(env2_))
            f.views.append({"vname": vname, "pname": pname, "lo": lov, "palias": None})
            env2_[vname] = (vname, ("slice", "u64"))
            return "%s let %s := %s in do %s <- subslice %s %s %s ;\n  %s" % (
                " ".join(b_), lov, lo_, vname, paren(sa_), lov, paren(hi_), rest(env2_))
        if k == "let" and s[1][0] == "ptuple" and len(s[1][1]) == 2 and all(q[0] == "pvar" for q in s[1][1]) \
                and s[3][0] == "mcall" and s[3][2] == "split_at_mut" and len(s[3][3]) == 1 and s[3][1][0] == "var" \
                and s[3][1][1] in env and env[s[3][1][1]][1] == ("slice", "u64"):
            # `let (a, b) = xs.split_at_mut(n);`: two windows of xs, [0, n) and [n, len)
            if getattr(f, "noviews", 0):
                raise Unsupported("sub-slice view inside a block that falls through")
            pname = s[3][1][1]
            va, vb = s[1][1][0][1], s[1][1][1][1]
            bn, an, _ = self.ex(f, s[3][3][0], env, "usize")
            if not hasattr(f, "views"):
                f.views = []
            f.impure = True
            par = env[pname][0]
            lov = "lo_%s%d" % (vb, len(f.views))
            f.views.append({"vname": va, "pname": pname, "lo": "0", "palias": None})
            f.views.append({"vname": vb, "pname": pname, "lo": lov, "palias": None})
            env2_ = dict(env)
            env2_[va] = (va, ("slice", "u64"))
            env2_[vb] = (vb, ("slice", "u64"))
            return "%s let %s := %s in do %s <- subslice %s 0 %s ; do %s <- subslice %s %s (lenZ %s) ;\n  %s" % (
                " ".join(bn), lov, an, va, par, lov, vb, par, lov, par, rest(env2_))
        if k == "let" and s[1][0] == "ptuple" and len(s[1][1]) == 2 and all(q[0] == "pvar" for q in s[1][1]) \
                and s[3][0] == "mcall" and s[3][2] == "split_at" and len(s[3][3]) == 1:
            # `let (a, b) = xs.split_at(n);` on a shared slice: n beyond the length panics
            b0, a0, t0 = self.ex(f, s[3][1], env)
            if not (isinstance(t0, tuple) and t0[0] in ("slice", "arr")):
                raise Unsupported("split_at on a non-slice")
            bn, an, _ = self.ex(f, s[3][3][0], env, "usize")
            f.impure = True
            va, vb = s[1][1][0][1], s[1][1][1][1]
            env2_ = dict(env)
            env2_[va] = (va, ("slice", "u64"))
            env2_[vb] = (vb, ("slice", "u64"))
            return "%s do %s <- subslice %s 0 %s ; do %s <- subslice %s %s (lenZ %s) ;\n  %s" % (
                " ".join(b0 + bn), va, paren(a0), paren(an), vb, paren(a0), paren(an), paren(a0), rest(env2_))
        if k == "let" and s[3][0] == "try":
            # `let p = E?;` in a function returning Option: None is returned at once
            b, a, t = self.ex(f, s[3][1], env)
            if not (isinstance(t, tuple) and t[0] == "option") or not (retty and retty[0] == "option"):
                raise Unsupported("`?` outside Option")
            env = dict(env)
            pat = self.bind_pat(s[1], t[1], env)
            f.impure = True
            return "%s match %s with None => Val None | Some %s =>\n  %s end" % (" ".join(b), a, pat, rest(env))
        if k == "let" and s[2] is None and s[3][0] == "num" and not s[3][2] and s[1][0] == "pvar":
            env = dict(env)
            env[s[1][1]] = (s[1][1], "lit")     # integer literal without annotation: typed at first use
            return "let %s := %d in\n  %s" % (s[1][1], s[3][1], rest(env))
        if k == "let" and s[1][0] == "pvar" and s[2] is None and self.elem_ref(s[3]) is not None \
                and self.elem_ref(s[3])[0] in env and env[self.elem_ref(s[3])[0]][1] == ("slice", "u64"):
            sv, ixe = self.elem_ref(s[3])
            bi, ai, _ = self.ex(f, ixe, env, "usize")     # the index is evaluated where the reference is taken
            env = dict(env)
            env[s[1][1]] = (s[1][1], ("ref", sv, ai))
            return "%s\n  %s" % (" ".join(bi), rest(env))
        if k == "let":
            b, a, t = self.ex(f, s[3], env, s[2])
            env = dict(env)
            if s[2] and s[2] != t:
                if s[3][0] == "num":
                    t = s[2]
                else:
                    raise Unsupported("let type annotation %s vs %s" % (s[2], t))
            pat = self.bind_pat(s[1], t, env)
            pre = " ".join(b)
            if s[1][0] == "pvar":
                return "%s let %s := %s in\n  %s" % (pre, pat, a, rest(env))
            return "%s let '%s := %s in\n  %s" % (pre, pat, a, rest(env))
        if k == "return":
            if s[1] is None:                    # `return;` in a unit function: the &mut outputs as they are
                return f.unit_return(env)
            b, a, t = self.ex(f, s[1], env, retty)
            wrapl, wrapr = ("(Ret ", ")") if getattr(f, "retloops", 0) else ("", "")
            if f.mutouts:
                # (result, new values of the &mut parameters): a callee that updated them has rebound their names
                return " ".join(b) + " Val %s(%s)%s" % (wrapl, ", ".join([a] + f.mut_outs(env)), wrapr)
            return " ".join(b) + " Val %s%s%s" % (wrapl, paren(a) if wrapl else a, wrapr)
        if k == "assign":
            tgt = s[1]
            if tgt[0] == "un":
                tgt = tgt[2]
            er = self.elem_ref(tgt)
            if er is not None:
                tgt = ("index", ("var", er[0]), er[1])
            elif tgt[0] == "var" and tgt[1] in env and isinstance(env[tgt[1]][1], tuple) and env[tgt[1]][1][:1] == ("ref",):
                tgt = ("index", ("var", env[tgt[1]][1][1]), ("__atom", env[tgt[1]][1][2]))
            if s[2]:
                rhs = ("bin", s[2], tgt, s[3])
            else:
                rhs = s[3]
            def target(t):
                """(name bound by the let, type, code after the let)"""
                if t[0] == "var":
                    return t[1], env[t[1]][1], []
                if t[0] == "index":
                    root = t[1]
                    while root[0] == "field":
                        root = root[1]
                    if root[0] != "var":
                        raise Unsupported("assignment target")
                    bi, ai, _ = self.ex(f, t[2], env, "usize")
                    nv = f.fresh()
                    f.impure = True      # an index out of bounds panics
                    return nv, "u64", bi + ["do _ <- idx %s %s ; let %s := upd %s %s %s in" % (
                        env[root[1]][0], paren(ai), root[1], env[root[1]][0], paren(ai), nv)]
                raise Unsupported("assignment target")
            if tgt[0] in ("var", "index"):
                nm, ty, post = target(tgt)
                b, a, t = self.ex(f, rhs, env, None if ty == "lit" else ty)
                if ty == "lit" and tgt[0] == "var":
                    env = dict(env)
                    env[tgt[1]] = (tgt[1], t)
                return "%s let %s := %s in %s\n  %s" % (" ".join(b), nm, a, " ".join(post), rest(env))
            if tgt[0] == "tuple":
                parts = [target(x) for x in tgt[1]]
                tys = ("tuple", [x[1] for x in parts])
                b, a, t = self.ex(f, rhs, env, tys if all(x is not None for x in tys[1]) else None)
                post = [c for x in parts for c in x[2]]
                if isinstance(t, tuple) and t[0] == "tuple" and len(t[1]) == len(parts):
                    env = dict(env)
                    for x, tg, ty1 in zip(parts, tgt[1], t[1]):
                        if tg[0] == "var" and env[tg[1]][1] is None:
                            env[tg[1]] = (tg[1], ty1)
                return "%s let '(%s) := %s in %s\n  %s" % (" ".join(b), ", ".join(x[0] for x in parts), a,
                                                         " ".join(post), rest(env))
            raise Unsupported("assignment target")
        if k == "expr" and s[1] == ("var", "break"):
            if not getattr(f, "breakfins", None):
                raise Unsupported("break outside a fuelled while loop")
            return f.breakfins[-1](env)
        if k == "expr" and s[1] == ("var", "continue"):
            if not getattr(f, "loopfins", None):
                raise Unsupported("continue outside a for loop")
            return f.loopfins[-1](env)
        if k == "expr":
            e = s[1]
            if e[0] == "macro":
                if e[1] == "debug_assert":
                    b, a, _ = self.ex(f, e[2][0], env, "bool")
                    f.impure = True
                    return "%s if negb %s then DebugPanic else\n  %s" % (" ".join(b), paren(a), rest(env))
                if e[1] == "assert":
                    b, a, _ = self.ex(f, e[2][0], env, "bool")
                    f.impure = True
                    return "%s if negb %s then Panic else\n  %s" % (" ".join(b), paren(a), rest(env))
                if e[1] == "assume":
                    b, a, _ = self.ex(f, e[2][0], env, "bool")
                    f.impure = True
                    return "%s if negb %s then DebugPanic else\n  %s" % (" ".join(b), paren(a), rest(env))
                if e[1] == "assert_eq":
                    b1, a1, t1 = self.ex(f, e[2][0], env)
                    b2, a2, t2 = self.ex(f, e[2][1], env, t1)
                    f.impure = True
                    return "%s if negb (%s =? %s) then Panic else\n  %s" % (
                        " ".join(b1 + b2), paren(a1), paren(a2), rest(env))
                if e[1] == "debug_assert_eq":
                    b1, a1, t1 = self.ex(f, e[2][0], env)
                    b2, a2, t2 = self.ex(f, e[2][1], env, t1)
                    f.impure = True
                    if t1 == "ordering":
                        return "%s if negb (match %s, %s with Lt, Lt | Eq, Eq | Gt, Gt => true | _, _ => false end) then DebugPanic else\n  %s" % (
                            " ".join(b1 + b2), a1, a2, rest(env))
                    return "%s if negb (%s =? %s) then DebugPanic else\n  %s" % (
                        " ".join(b1 + b2), paren(a1), paren(a2), rest(env))
                raise Unsupported("macro " + e[1])
            if e[0] == "if":
                bc, ac, _ = self.ex(f, e[1], env, "bool")
                th, el = e[2], e[3]
                # early return / continue: `if c { ..; return e; }`, `if c { ..; continue; }`
                if el is None and self.always_exits(th):
                    nviews = len(getattr(f, "views", []))
                    body = self.stmts(f, th[1], 0, dict(env), lambda _e: "Panic", retty)
                    del getattr(f, "views", [])[nviews:]
                    return "%s if %s then (%s) else\n  %s" % (" ".join(bc), ac, body, rest(env))
                # `if c { ..; return x; } else { ..; return y; }`: nothing after it is reachable
                if el is not None and self.always_exits(th) and self.always_exits(el):
                    b1_ = self.stmts(f, th[1], 0, dict(env), lambda _e: "Panic", retty)
                    b2_ = self.stmts(f, el[1], 0, dict(env), lambda _e: "Panic", retty)
                    return "%s if %s then (%s) else (%s)" % (" ".join(bc), ac, b1_, b2_)
                if self.has_return(th) or (el is not None and self.has_return(el)) or self.has_break(th) or \
                        (el is not None and self.has_break(el)):
                    raise Unsupported("return or break nested in an if that also falls through")
                # value-less if with assignments: thread the assigned variables
                vs = self.assigned(th)
                if el is not None:
                    for v in self.assigned(el):
                        if v not in vs:
                            vs.append(v)
                for v in vs:
                    if v not in env:
                        raise Unsupported("assignment to undeclared " + v)
                tup = "(" + ", ".join(v for v in vs) + ")" if len(vs) != 1 else vs[0]
                cur = "(" + ", ".join(env[v][0] for v in vs) + ")" if len(vs) != 1 else env[vs[0]][0]
                if not vs:
                    tup, cur = "_", "tt"

                def endb(env2):
                    if not vs:
                        return "Val tt"
                    return "Val " + ("(" + ", ".join(env2[v][0] for v in vs) + ")" if len(vs) != 1 else env2[vs[0]][0])
                f.noviews = getattr(f, "noviews", 0) + 1
                try:
                    s1 = self.stmts(f, th[1], 0, dict(env), endb, retty)
                    s2 = self.stmts(f, el[1], 0, dict(env), endb, retty) if el is not None else "Val " + cur
                finally:
                    f.noviews -= 1
                if (th[2] is not None) or (el is not None and el[2] is not None):
                    raise Unsupported("if statement with a value")
                f.impure = True
                env = dict(env)
                for v in vs:
                    env[v] = (v, env[v][1])
                w = f.fresh()
                if len(vs) <= 1:
                    return "%s do %s <- (if %s then (%s) else (%s)) ;\n  %s" % (" ".join(bc), tup, ac, s1, s2, rest(env))
                return "%s do %s <- (if %s then (%s) else (%s)) ;\n  let '%s := %s in\n  %s" % (
                    " ".join(bc), w, ac, s1, s2, tup, w, rest(env))
            if e[0] == "while" and e[1][0] == "bin" and e[1][1] == ">" and e[1][2][0] == "var" \
                    and e[1][3] == ("num", 0, None) and e[2][2] is None and e[2][1] \
                    and e[2][1][0] == ("assign", e[1][2], "-", ("num", 1, None)):
                # `while i > 0 { i -= 1; BODY }`: BODY runs for i = i0-1 down to 0 (i is 0 afterwards)
                iv = e[1][2][1]
                inner = ("block", e[2][1][1:], None)
                if iv in self.assigned(inner):
                    raise Unsupported("loop counter assigned in the body")
                lo = env[iv][0]
                env1 = dict(env)
                env1["__cnt_" + iv] = (lo, "usize")
                loop = ("fordown", iv, ("var", "__cnt_" + iv), None, inner)
                envafter_fix = ("assign", ("var", iv), None, ("num", 0, None))
                return self.stmts(f, [("expr", loop), envafter_fix] + ss[i + 1:], 0, env1, fin, retty)
            if e[0] == "loop" and f.gname in WHILE_FUEL:
                # `loop { body }` left only by `return`: runs on the tuple of the variables the body assigns,
                # with the round bound of WHILE_FUEL; nothing after it is reachable
                body = e[1]
                if body[2] is not None or not self.has_return(body) or getattr(f, "retloops", 0):
                    raise Unsupported("loop with a value, without return, or nested in a returning loop")
                vs = self.assigned(body)
                for v in vs:
                    if v not in env:
                        raise Unsupported("assignment to undeclared " + v)
                if not vs:
                    raise Unsupported("loop without effect")
                tup = lambda en: ("(" + ", ".join(en[v][0] for v in vs) + ")") if len(vs) != 1 else en[vs[0]][0]
                pat = ("(" + ", ".join(vs) + ")") if len(vs) != 1 else vs[0]
                env2 = dict(env)
                for v in vs:
                    env2[v] = (v, env[v][1])
                if not hasattr(f, "loopfins"):
                    f.loopfins = []
                cont = lambda en: "Val (Cont " + tup(en) + ")"
                f.loopfins.append(cont)
                f.retloops = getattr(f, "retloops", 0) + 1
                try:
                    bcode = self.stmts(f, body[1], 0, env2, cont, retty)
                finally:
                    f.loopfins.pop()
                    f.retloops -= 1
                f.impure = True
                st = f.fresh()
                return "loop_fuel_ret (%s) %s (fun %s => let '%s := %s in %s)" % (
                    WHILE_FUEL[f.gname], tup(env), st, pat, st, bcode)
            if e[0] == "while" and f.gname in WHILE_ROUNDS:
                # as the fuelled while below, but the bound counts rounds: the condition is evaluated first,
                # and only a round that has to run with no round left is OutOfFuel
                c, body = e[1], e[2]
                if body[2] is not None or self.has_return(body) or self.has_break(body):
                    raise Unsupported("bounded while with a value, a return or a break")
                vs = self.assigned(body)
                for v in vs:
                    if v not in env:
                        raise Unsupported("assignment to undeclared " + v)
                if not vs:
                    raise Unsupported("while loop without effect")
                tup = lambda en: ("(" + ", ".join(en[v][0] for v in vs) + ")") if len(vs) != 1 else en[vs[0]][0]
                pat = ("(" + ", ".join(vs) + ")") if len(vs) != 1 else vs[0]
                env2 = dict(env)
                for v in vs:
                    env2[v] = (v, env[v][1])
                bc, ac, tc = self.ex(f, c, env2, "bool")
                bcode = self.stmts(f, body[1], 0, env2, lambda en: "Val " + tup(en), retty)
                f.impure = True
                w, st = f.fresh(), f.fresh()
                cur = tup(env)
                env = dict(env)
                for v in vs:
                    env[v] = (v, env[v][1])
                return "do %s <- while_rounds (%s) %s (fun %s => let '%s := %s in %s Val %s) (fun %s => let '%s := %s in %s) ;\n  let '%s := %s in\n  %s" % (
                    w, WHILE_ROUNDS[f.gname], cur, st, pat, st, " ".join(bc), paren(ac), st, pat, st, bcode, pat, w, rest(env))
            if e[0] == "while" and f.gname in WHILE_FUEL:
                # a `while c { body }` with no syntactic trip count: the loop runs on the tuple of the
                # variables the body assigns with the round bound named in WHILE_FUEL (an expression of
                # the function's parameters); running out of it is OutOfFuel, a value no Rust run has
                c, body = e[1], e[2]
                if body[2] is not None or self.has_return(body):
                    raise Unsupported("fuelled while with a value or a return")
                vs = self.assigned(body)
                for v in vs:
                    if v not in env:
                        raise Unsupported("assignment to undeclared " + v)
                if not vs:
                    raise Unsupported("while loop without effect")
                tup = lambda en: ("(" + ", ".join(en[v][0] for v in vs) + ")") if len(vs) != 1 else en[vs[0]][0]
                pat = ("(" + ", ".join(vs) + ")") if len(vs) != 1 else vs[0]
                env2 = dict(env)
                for v in vs:
                    env2[v] = (v, env[v][1])
                bc, ac, tc = self.ex(f, c, env2, "bool")
                brk = self.has_break(body)
                if brk:
                    # `break` leaves the loop with the state at that point: the body yields Cont st | Ret st
                    if not hasattr(f, "breakfins"):
                        f.breakfins = []
                    f.breakfins.append(lambda en: "Val (Ret " + tup(en) + ")")
                    try:
                        bcode = self.stmts(f, body[1], 0, env2, lambda en: "Val (Cont " + tup(en) + ")", retty)
                    finally:
                        f.breakfins.pop()
                else:
                    bcode = self.stmts(f, body[1], 0, env2, lambda en: "Val " + tup(en), retty)
                f.impure = True
                w, st = f.fresh(), f.fresh()
                cur = tup(env)
                env = dict(env)
                for v in vs:
                    env[v] = (v, env[v][1])
                if brk:
                    return "do %s <- while_fuel_brk (%s) %s (fun %s => let '%s := %s in %s Val %s) (fun %s => let '%s := %s in %s) ;\n  let '%s := %s in\n  %s" % (
                        w, WHILE_FUEL[f.gname], cur, st, pat, st, " ".join(bc), paren(ac), st, pat, st, bcode, pat, w, rest(env))
                return "do %s <- while_fuel (%s) %s (fun %s => let '%s := %s in %s Val %s) (fun %s => let '%s := %s in %s) ;\n  let '%s := %s in\n  %s" % (
                    w, WHILE_FUEL[f.gname], cur, st, pat, st, " ".join(bc), paren(ac), st, pat, st, bcode, pat, w, rest(env))
            if e[0] == "while":
                c, body = e[1], e[2]
                ok = (c[0] == "bin" and c[1] == "<" and c[2][0] == "var" and body[2] is None and body[1]
                      and body[1][-1][0] == "assign" and body[1][-1][1] == c[2] and body[1][-1][2] == "+"
                      and body[1][-1][3][0] == "num" and body[1][-1][3][1] == 1)
                if not ok:
                    raise Unsupported("while loop that is not `while i < E { ...; i += 1; }`")
                iv = c[2][1]
                inner = ("block", body[1][:-1], None)
                vs = [v for v in self.assigned(inner) if v != iv]
                if iv in self.assigned(inner):
                    raise Unsupported("loop counter assigned in the body")
                bh, ah, _ = self.ex(f, c[3], env, "usize")
                lo = env[iv][0]
                tup = lambda en: ("(" + ", ".join(en[v][0] for v in vs) + ")") if len(vs) != 1 else en[vs[0]][0]
                pat = ("(" + ", ".join(vs) + ")") if len(vs) != 1 else vs[0]
                env2 = dict(env)
                env2[iv] = (iv, "usize")
                for v in vs:
                    env2[v] = (v, env[v][1])
                bcode = self.stmts(f, inner[1], 0, env2, lambda en: "Val " + tup(en), retty)
                f.impure = True
                w, st = f.fresh(), f.fresh()
                env = dict(env)
                cur = tup(env)
                for v in vs:
                    env[v] = (v, env[v][1])
                env[iv] = ("(Z.max %s %s)" % (paren(lo), paren(ah)), "usize")
                return "%s do %s <- for_range %s %s %s (fun %s %s => let '%s := %s in %s) ;\n  let '%s := %s in\n  %s" % (
                    " ".join(bh), w, paren(lo), paren(ah), cur, iv, st, pat, st, bcode, pat, w, rest(env))
            if e[0] == "foreach":
                e = self.desugar_foreach(e)
            if e[0] in ("for", "fordown", "fordownrange"):
                # `for i in LO..HI { body }`: the body runs for i = LO .. HI-1 on the tuple of the
                # variables it assigns; LO and HI are evaluated once, before the loop
                iv, body = e[1], e[4]
                if body[2] is not None and body[2][0] == "match":
                    body = ("block", body[1] + [("expr", body[2])], None)   # a unit-valued match ends the body
                if body[2] is not None:
                    raise Unsupported("for body with a value")
                vs = [v for v in self.assigned(body) if v != iv]
                if iv in self.assigned(body):
                    raise Unsupported("loop counter assigned in the body")
                for v in vs:
                    if v not in env:
                        raise Unsupported("assignment to undeclared " + v)
                bl, al, _ = self.ex(f, e[2], env, "usize")
                bh, ah, _ = self.ex(f, e[3], env, "usize") if e[3] is not None else ([], None, None)
                tup = lambda en: ("(" + ", ".join(en[v][0] for v in vs) + ")") if len(vs) != 1 else en[vs[0]][0]
                pat = ("(" + ", ".join(vs) + ")") if len(vs) != 1 else vs[0]
                if not vs and not self.has_return(body):
                    raise Unsupported("for loop without effect")
                if not vs:
                    tup = lambda en: "tt"
                    pat = "tt"
                env2 = dict(env)
                env2[iv] = (iv, "usize")
                for v in vs:
                    env2[v] = (v, env[v][1])
                if not hasattr(f, "loopfins"):
                    f.loopfins = []
                retmode = self.has_return(body)
                if retmode and getattr(f, "retloops", 0):
                    raise Unsupported("return inside nested loops")
                cont = (lambda en: "Val (Cont " + tup(en) + ")") if retmode else (lambda en: "Val " + tup(en))
                f.loopfins.append(cont)
                if retmode:
                    f.retloops = getattr(f, "retloops", 0) + 1
                try:
                    bcode = self.stmts(f, body[1], 0, env2, cont, retty)
                finally:
                    f.loopfins.pop()
                    if retmode:
                        f.retloops -= 1
                f.impure = True
                w, st = f.fresh(), f.fresh()
                cur = tup(env)
                env = dict(env)
                for v in vs:
                    env[v] = (v, env[v][1])
                sfx = "_ret" if retmode else ""
                if retmode:
                    after = "match %s with Ret r_ => Val r_ | Cont %s =>\n  %s end" % (w, pat if pat != "tt" else "_", rest(env))
                else:
                    after = "let '%s := %s in\n  %s" % (pat, w, rest(env))
                lp = ("let '%s := %s in " % (pat, st)) if pat != "tt" else ""
                if e[0] == "fordownrange":  # `for i in (LO..HI).rev()`: i = HI-1 down to LO
                    kv = "k_" + iv
                    return "%s do %s <- for_down%s (Z.to_nat (%s - %s)) %s (fun %s %s => let %s := %s + %s in %s%s) ;\n  %s" % (
                        " ".join(bl + bh), w, sfx, paren(ah), paren(al), cur, kv, st, iv, paren(al), kv, lp, bcode, after)
                if e[0] == "fordown":       # e[2] = trip count; i runs from count-1 down to 0
                    return "%s do %s <- for_down%s (Z.to_nat %s) %s (fun %s %s => %s%s) ;\n  %s" % (
                        " ".join(bl), w, sfx, paren(al), cur, iv, st, lp, bcode, after)
                return "%s do %s <- for_range%s %s %s %s (fun %s %s => %s%s) ;\n  %s" % (
                    " ".join(bl + bh), w, sfx, paren(al), paren(ah), cur, iv, st, lp, bcode, after)
            if e[0] == "match":
                bs, a, t = self.ex(f, e[1], env)
                arms = []
                for pat, body in e[2]:
                    env2 = dict(env)
                    ps = self.mpat(pat, t, env2)
                    bb = self.unblock(body)
                    if isinstance(bb, tuple) and bb and bb[0] == "call" and bb[1][0] == "path" \
                            and bb[1][1][-1] == "unreachable_unchecked":
                        code = "Panic"              # undefined behaviour in Rust: no theorem may rely on it
                        f.impure = True
                    elif body[0] == "block" and body[2] is None:
                        code = self.stmts(f, body[1], 0, env2, lambda en: rest(en), retty)
                    elif body[0] == "block" and not body[1] and body[2][0] == "return":
                        code = self.stmts(f, [body[2]], 0, env2, lambda en: "Panic", retty)
                    elif body[0] == "block" and not body[1] and body[2][0] in ("call", "mcall", "discard"):
                        x = body[2][1] if body[2][0] == "discard" else body[2]
                        code = self.stmts(f, [("expr", x)], 0, env2, lambda en: rest(en), retty)
                    else:
                        raise Unsupported("match statement arm")
                    arms.append("| %s => %s" % (ps, code))
                return "%s match %s with %s end" % (" ".join(bs), a, " ".join(arms))
            if e[0] == "call" and e[1][0] == "path" and e[1][1][0] == "u64" and len(e[1][1]) == 2 \
                    and e[1][1][1] in ("bitor_assign", "bitand_assign", "bitxor_assign") and len(e[2]) == 2:
                op = {"bitor_assign": "|", "bitand_assign": "&", "bitxor_assign": "^"}[e[1][1][1]]
                tgt = e[2][0]
                while tgt[0] == "un" and tgt[1] in ("&", "*"):
                    tgt = tgt[2]
                return self.stmts(f, [("assign", tgt, op, e[2][1])] + ss[i + 1:], 0, env, fin, retty)
            if e[0] == "mcall" and e[2] == "reverse" and not e[3]:
                # `xs.reverse()` on a slice variable or on `x.limbs` of a Uint variable
                r0 = e[1]
                if r0[0] == "field" and r0[2] == "limbs":
                    r0 = r0[1]
                if r0[0] != "var" or r0[1] not in env:
                    raise Unsupported("reverse of a non-variable")
                nm = r0[1]
                env2_ = dict(env)
                env2_[nm] = (nm, env[nm][1])
                return "let %s := rev %s in\n  %s" % (nm, env[nm][0], rest(env2_))
            if e[0] == "mcall" and e[2] in ("copy_from_slice", "copy_within", "fill"):
                recv = e[1]
                f.impure = True
                if e[2] == "copy_from_slice" and recv[0] == "var" and len(e[3]) == 1:
                    b, a, t = self.ex(f, e[3][0], env)
                    nm = env[recv[1]][0]
                    return "%s if negb (lenZ %s =? lenZ %s) then Panic else let %s := %s in\n  %s" % (
                        " ".join(b), nm, paren(a), nm, a, rest(env))
                if e[2] == "copy_from_slice" and recv[0] == "slice" and recv[1][0] == "var" and len(e[3]) == 1:
                    # `xs[lo..hi].copy_from_slice(src)`: the window must have the length of src
                    nm = env[recv[1][1]][0]
                    b_, sa_, lo_, hi_ = self.slice_bounds(f, recv, env)
                    bsrc, asrc, tsrc = self.ex(f, e[3][0], env)
                    w_ = f.fresh()
                    return "%s do %s <- subslice %s %s %s ; if negb (lenZ %s =? lenZ %s) then Panic else let %s := splice %s %s %s in\n  %s" % (
                        " ".join(b_ + bsrc), w_, paren(sa_), paren(lo_), paren(hi_), w_, paren(asrc),
                        recv[1][1], nm, paren(lo_), paren(asrc), rest(env))
                if e[2] == "copy_within" and recv[0] == "var" and len(e[3]) == 2 and e[3][0][0] == "range":
                    nm = env[recv[1]][0]
                    bl, al = ([], "0") if e[3][0][1] is None else self.ex(f, e[3][0][1], env, "usize")[:2]
                    bh, ah = ([], "(lenZ %s)" % nm) if e[3][0][2] is None else self.ex(f, e[3][0][2], env, "usize")[:2]
                    bd, ad, _ = self.ex(f, e[3][1], env, "usize")
                    return "%s do %s <- copy_within %s %s %s %s ;\n  %s" % (
                        " ".join(bl + bh + bd), nm, nm, paren(al), paren(ah), paren(ad), rest(env))
                if e[2] == "fill" and recv[0] == "var" and len(e[3]) == 1 and recv[1] in env \
                        and env[recv[1]][1] == ("slice", "u64"):
                    nm = env[recv[1]][0]
                    bv, av, _ = self.ex(f, e[3][0], env, "u64")
                    return "%s let %s := repeat %s (length %s) in\n  %s" % (" ".join(bv), nm, paren(av), nm, rest(env))
                if e[2] == "fill" and recv[0] == "slice" and recv[1][0] == "var" and recv[3] is None and len(e[3]) == 1:
                    nm = env[recv[1][1]][0]
                    bl, al, _ = self.ex(f, recv[2], env, "usize")
                    bv, av, _ = self.ex(f, e[3][0], env, "u64")
                    return "%s do %s <- fill_from %s %s %s ;\n  %s" % (
                        " ".join(bl + bv), nm, nm, paren(al), paren(av), rest(env))
                raise Unsupported("slice method ." + e[2])
            if e[0] == "call" and e[1] == ("var", "swap") and len(e[2]) == 2:
                # core::mem::swap(&mut a, &mut b) on two variables
                ts = []
                for t0 in e[2]:
                    if not (t0[0] == "un" and t0[1] == "&"):
                        raise Unsupported("swap of non-references")
                    while t0[0] == "un":
                        t0 = t0[2]
                    if t0[0] != "var" or t0[1] not in env:
                        raise Unsupported("swap of non-variables")
                    ts.append(t0[1])
                x_, y_ = ts
                env2_ = dict(env)
                env2_[x_] = (x_, env[x_][1])
                env2_[y_] = (y_, env[y_][1])
                return "let '(%s, %s) := (%s, %s) in\n  %s" % (x_, y_, env[y_][0], env[x_][0], rest(env2_))
            if e[0] in ("call", "mcall"):            # value discarded
                b, a, t = self.ex(f, e, env)
                return "%s\n  %s" % (" ".join(b), rest(env))
            raise Unsupported("expression statement")
        raise Unsupported("statement " + k)

    # ---- one function
    def function(self, rname, gname, src, selfty=None):
        pp = P(tokenize(src))
        name, params, ret, body = pp.fn()
        self.ngen[rname] = getattr(pp, "ngen", 0)
        f = Fn(self, gname, params, ret, selfty)

        def subst(t):
            if t == "Self":
                return selfty
            if isinstance(t, tuple) and t[0] in ("tuple",):
                return ("tuple", [subst(x) for x in t[1]])
            if isinstance(t, tuple) and t[0] in ("option", "mutref", "slice", "iter"):
                return (t[0], subst(t[1]))
            return t
        ret = subst(ret)
        env, binders, ptys, mutouts = {}, [], [], []
        if selfty == "uint":
            env["BITS"] = ("BITS", "usize")
            env["LIMBS"] = ("LIMBS", "usize")
            binders += ["(BITS : Z)", "(LIMBS : Z)"]
        for pn, pt in params:
            pt = subst(pt)
            if pt == ("mutref", "uint") and False:
                pass
            if isinstance(pt, tuple) and pt[0] == "mutref":
                env[pn] = (pn, pt[1])
                mutouts.append(pn)
                ptys.append(pt[1])
                pt = pt[1]
            else:
                env[pn] = (pn, pt)
                ptys.append(pt)
            binders.append("(%s : %s)" % (pn, "bool" if pt == "bool" else "(Z * Z * Z * Z * bool)" if pt == "matrix" else
                                          "list (list Z)" if pt == ("iter", "uint") else
                                          "list Z" if (pt == "uint" or (isinstance(pt, tuple) and pt[0] in ("slice", "arr"))) else "Z"))

        f.mutouts = mutouts

        def fin(env2):
            if body[2] is None:
                b, a = [], None
            else:
                b, a, t = self.ex(f, body[2], env2, ret)
            outs = ([a] if a is not None else []) + f.mut_outs(env2)
            a = "tt" if not outs else outs[0] if len(outs) == 1 else "(" + ", ".join(outs) + ")"
            return (" ".join(b) + " " if b else "") + "Val %s" % a
        if body[2] is not None and body[2][0] == "match" and ret == ("tuple", []):
            body = ("block", body[1] + [("expr", body[2])], None)
        code = self.stmts(f, body[1], 0, env, fin, ret)
        pure = not f.impure
        if pure:
            # no check can fire: the definition is a plain function (strip the final Val)
            m = re.match(r"^(.*)Val (.*)$", code, flags=re.S)
            code = m.group(1) + m.group(2)
        for tn, vals in f.tables:
            self.out.append("Definition %s : list Z := [%s]." % (tn, "; ".join(map(str, vals))))
        self.out.append("(* %s *)\nDefinition %s %s :=\n  %s." % (rname, gname, " ".join(binders), code.strip()))
        self.sigs[rname] = (gname, ptys, ret, pure, {i for i, (pn, _) in enumerate(params) if pn in mutouts},
                            selfty == "uint")
        return pure


# ------------------------------------------------------------------ driver
def fn_text(txt, name, after=None):
    """Text of `fn name(...) {...}` (first occurrence after the marker, outside #[cfg(test)])."""
    cut = txt.find("#[cfg(test)]")
    if cut >= 0:
        txt = txt[:cut]
    start = 0
    if after:
        start = txt.find(after)
        if start < 0:
            raise Unsupported("marker %r not found" % after)
    m = re.compile(r"\bfn\s+%s\s*(?:<[^>(]*>)?\s*\(" % re.escape(name)).search(txt, start)
    if not m:
        raise Unsupported("fn %s not found" % name)
    i = txt.index("{", m.end())
    depth, j = 0, i
    while True:
        c = txt[j]
        if c == "/" and txt[j + 1] == "/":
            j = txt.index("\n", j)
            continue
        depth += (c == "{") - (c == "}")
        j += 1
        if depth == 0:
            break
    return txt[m.start():j]


UINT_IMPL = "impl<const BITS: usize, const LIMBS: usize> Uint<BITS, LIMBS>"
# (file, marker, rust fn name, name used at call sites, generated name, Self type)
# round bounds of the `while` loops that have no syntactic trip count (see the fuelled-while case)
WHILE_FUEL = {
    "g_overflowing_pow": "Datatypes.S (Z.to_nat BITS)",     # exp < 2^BITS is halved every round
    "g_wrapping_pow": "Datatypes.S (Z.to_nat BITS)",
    "g_pow_mod": "Datatypes.S (Z.to_nat BITS)",
    "g_mat_from_u64": "70%nat",                   # r0 at least halves every round
    "g_mat_from_u64_prefix": "64%nat",            # a3 at least halves every round
}

# loops whose bound counts rounds (condition first): `while b != ZERO` of the Lehmer gcd loops, where every
# round at least halves a*b
WHILE_ROUNDS = {
    "g_alg_gcd": "Z.to_nat (2 * BITS + 2)",
    "g_alg_gcd_extended": "Z.to_nat (2 * BITS + 2)",
    "g_alg_inv_mod": "Z.to_nat (2 * BITS + 2)",
    "g_inv_ring": "Z.to_nat LIMBS",               # correct_limbs doubles from 1 until it reaches LIMBS
}

TARGETS = [
    ("src/lib.rs", None, "nlimbs", "nlimbs", "g_nlimbs", None),
    ("src/lib.rs", None, "mask", "mask", "g_mask", None),
    ("src/bytes.rs", None, "nbytes", "nbytes", "g_nbytes", None),
    ("src/algorithms/mod.rs", "impl DoubleWord<u64> for u128", "join", "dw_join", "g_dw_join", "u128"),
    ("src/algorithms/mod.rs", "impl DoubleWord<u64> for u128", "add", "dw_add", "g_dw_add", "u128"),
    ("src/algorithms/mod.rs", "impl DoubleWord<u64> for u128", "mul", "dw_mul", "g_dw_mul", "u128"),
    ("src/algorithms/mod.rs", "impl DoubleWord<u64> for u128", "muladd", "dw_muladd", "g_dw_muladd", "u128"),
    ("src/algorithms/mod.rs", "impl DoubleWord<u64> for u128", "muladd2", "dw_muladd2", "g_dw_muladd2", "u128"),
    ("src/algorithms/mod.rs", "impl DoubleWord<u64> for u128", "high", "dw_high", "g_dw_high", "u128"),
    ("src/algorithms/mod.rs", "impl DoubleWord<u64> for u128", "low", "dw_low", "g_dw_low", "u128"),
    ("src/algorithms/mod.rs", "impl DoubleWord<u64> for u128", "split", "dw_split", "g_dw_split", "u128"),
    ("src/algorithms/mod.rs", None, "carrying_add", "carrying_add", "g_carrying_add", None),
    ("src/algorithms/mod.rs", None, "borrowing_sub", "borrowing_sub", "g_borrowing_sub", None),
    ("src/algorithms/ops.rs", None, "adc", "adc", "g_adc", None),
    ("src/algorithms/ops.rs", None, "sbb", "sbb", "g_sbb", None),
    ("src/algorithms/mul.rs", None, "mac", "mac", "g_mac", None),
    ("src/algorithms/mul.rs", None, "addmul_1", "addmul_1", "g_addmul_1", None),
    ("src/algorithms/mul.rs", None, "addmul_2", "addmul_2", "g_addmul_2", None),
    ("src/algorithms/mul.rs", None, "addmul_3", "addmul_3", "g_addmul_3", None),
    ("src/algorithms/mul.rs", None, "addmul_4", "addmul_4", "g_addmul_4", None),
    ("src/algorithms/mul.rs", None, "addmul_n", "addmul_n", "g_addmul_n", None),
    ("src/algorithms/mul_redc.rs", None, "carrying_mul_add", "carrying_mul_add", "g_carrying_mul_add", None),
    ("src/algorithms/mul_redc.rs", None, "carrying_double_mul_add", "carrying_double_mul_add", "g_carrying_double_mul_add", None),
    ("src/algorithms/div/reciprocal.rs", None, "mul_hi", "mul_hi", "g_mul_hi", None),
    ("src/algorithms/div/reciprocal.rs", None, "muladd_hi", "muladd_hi", "g_muladd_hi", None),
    ("src/algorithms/div/reciprocal.rs", None, "reciprocal_mg10", "reciprocal_mg10", "g_reciprocal_mg10", None),
    ("src/algorithms/div/reciprocal.rs", None, "reciprocal_2_mg10", "reciprocal_2_mg10", "g_reciprocal_2_mg10", None),
    ("src/algorithms/div/small.rs", None, "div_2x1_mg10", "div_2x1_mg10", "g_div_2x1_mg10", None),
    ("src/algorithms/div/small.rs", None, "div_3x2_mg10", "div_3x2_mg10", "g_div_3x2_mg10", None),
    ("src/algorithms/div/reciprocal.rs", None, "reciprocal_ref", "reciprocal_ref", "g_reciprocal_ref", None),
    ("src/algorithms/div/small.rs", None, "div_2x1_ref", "div_2x1_ref", "g_div_2x1_ref", None),
    ("src/algorithms/div/small.rs", None, "div_3x2_ref", "div_3x2_ref", "g_div_3x2_ref", None),
    # limb-slice kernels with `for i in 0..n` / `for x in xs` loops (for_range over idx/upd)
    ("src/algorithms/add.rs", None, "adc_n", "adc_n", "g_adc_n", None),
    ("src/algorithms/add.rs", None, "sbb_n", "sbb_n", "g_sbb_n", None),
    ("src/algorithms/mul.rs", None, "mul_nx1", "mul_nx1", "g_mul_nx1", None),
    ("src/algorithms/mul.rs", None, "addmul_nx1", "addmul_nx1", "g_addmul_nx1", None),
    ("src/algorithms/mul.rs", None, "submul_nx1", "submul_nx1", "g_submul_nx1", None),
    ("src/algorithms/mul.rs", None, "add_nx1", "add_nx1", "g_add_nx1", None),
    ("src/algorithms/mod.rs", "pub fn cmp", "cmp", "slice_cmp", "g_slice_cmp", None),
    ("src/algorithms/shift.rs", None, "shift_left_small", "shift_left_small", "g_shift_left_small", None),
    ("src/algorithms/shift.rs", None, "shift_right_small", "shift_right_small", "g_shift_right_small", None),
    ("src/algorithms/div/small.rs", None, "div_nx1_normalized", "div_nx1_normalized", "g_div_nx1_normalized", None),
    ("src/algorithms/div/small.rs", None, "div_nx2_normalized", "div_nx2_normalized", "g_div_nx2_normalized", None),
    ("src/algorithms/div/small.rs", None, "div_nx1", "div_nx1", "g_div_nx1", None),
    ("src/algorithms/div/small.rs", None, "div_nx2", "div_nx2", "g_div_nx2", None),
    # Knuth division (sub-slices as windows: subslice / splice; `continue`)
    ("src/algorithms/div/knuth.rs", None, "div_nxm_normalized", "div_nxm_normalized", "g_div_nxm_normalized", None),
    ("src/algorithms/div/knuth.rs", None, "div_nxm", "div_nxm", "g_div_nxm", None),
    # Montgomery multiplication: const-generic arrays, nested counted loops (reduce1_carry: model function)
    ("src/algorithms/mul_redc.rs", None, "mul_redc", "mul_redc", "g_mul_redc", None),
    ("src/algorithms/mul_redc.rs", None, "square_redc", "square_redc", "g_square_redc", None),
    # inherent methods of Uint<BITS, LIMBS>: generated with leading (BITS LIMBS : Z) parameters
    ("src/lib.rs", UINT_IMPL, "masked", "U.masked", "g_masked", "uint"),
    ("src/lib.rs", UINT_IMPL, "from_limbs", "U.from_limbs", "g_from_limbs", "uint"),
    ("src/lib.rs", UINT_IMPL, "from_limbs_unmasked", "U.from_limbs_unmasked", "g_from_limbs_unmasked", "uint"),
    ("src/lib.rs", UINT_IMPL, "const:ZERO", "U.ZERO", "g_ZERO", "uint"),
    ("src/lib.rs", UINT_IMPL, "const:MAX", "U.MAX", "g_MAX", "uint"),
    ("src/from.rs", "const fn const_from_u64", "const_from_u64", "U.const_from_u64", "g_const_from_u64", "uint"),
    ("src/lib.rs", UINT_IMPL, "const:ONE", "U.ONE", "g_ONE", "uint"),
    ("src/lib.rs", UINT_IMPL, "apply_mask", "U.apply_mask", "g_apply_mask", "uint"),
    ("src/mul.rs", UINT_IMPL, "overflowing_mul", "U.overflowing_mul", "g_overflowing_mul", "uint"),
    ("src/mul.rs", UINT_IMPL, "checked_mul", "U.checked_mul", "g_checked_mul", "uint"),
    ("src/mul.rs", UINT_IMPL, "saturating_mul", "U.saturating_mul", "g_saturating_mul", "uint"),
    ("src/mul.rs", UINT_IMPL, "wrapping_mul", "U.wrapping_mul", "g_wrapping_mul", "uint"),
    ("src/add.rs", UINT_IMPL, "overflowing_add", "U.overflowing_add", "g_overflowing_add", "uint"),
    ("src/add.rs", UINT_IMPL, "wrapping_add", "U.wrapping_add", "g_wrapping_add", "uint"),
    ("src/cmp.rs", "pub fn is_zero", "is_zero", "U.is_zero", "g_is_zero", "uint"),
    ("src/bits.rs", UINT_IMPL, "bit", "U.bit", "g_bit", "uint"),
    ("src/bits.rs", UINT_IMPL, "set_bit", "U.set_bit", "g_set_bit", "uint"),
    ("src/bits.rs", UINT_IMPL, "not", "U.not", "g_not", "uint"),
    ("src/bits.rs", UINT_IMPL, "count_ones", "U.count_ones", "g_count_ones", "uint"),
    ("src/bits.rs", UINT_IMPL, "count_zeros", "U.count_zeros", "g_count_zeros", "uint"),
    ("src/bits.rs", UINT_IMPL, "trailing_zeros", "U.trailing_zeros", "g_trailing_zeros", "uint"),
    ("src/bits.rs", UINT_IMPL, "trailing_ones", "U.trailing_ones", "g_trailing_ones", "uint"),
    ("src/bits.rs", UINT_IMPL, "leading_zeros", "U.leading_zeros", "g_leading_zeros", "uint"),
    ("src/bits.rs", UINT_IMPL, "leading_ones", "U.leading_ones", "g_leading_ones", "uint"),
    ("src/bits.rs", UINT_IMPL, "bit_len", "U.bit_len", "g_bit_len", "uint"),
    ("src/bits.rs", UINT_IMPL, "byte_len", "U.byte_len", "g_byte_len", "uint"),
    ("src/bits.rs", UINT_IMPL, "overflowing_shl", "U.overflowing_shl", "g_overflowing_shl", "uint"),
    ("src/bits.rs", UINT_IMPL, "overflowing_shr", "U.overflowing_shr", "g_overflowing_shr", "uint"),
    ("src/bits.rs", UINT_IMPL, "checked_shl", "U.checked_shl", "g_checked_shl", "uint"),
    ("src/bits.rs", UINT_IMPL, "saturating_shl", "U.saturating_shl", "g_saturating_shl", "uint"),
    ("src/bits.rs", UINT_IMPL, "wrapping_shl", "U.wrapping_shl", "g_wrapping_shl", "uint"),
    ("src/bits.rs", UINT_IMPL, "checked_shr", "U.checked_shr", "g_checked_shr", "uint"),
    ("src/bits.rs", UINT_IMPL, "wrapping_shr", "U.wrapping_shr", "g_wrapping_shr", "uint"),
    ("src/bits.rs", "macro:impl_bit_op|fn $fn_assign(&mut self, rhs: &Uint<BITS, LIMBS>)|$fn_assign=bitor_assign", "bitor_assign", "U.bitor_assign", "g_bitor_assign", "uint"),
    ("src/bits.rs", "macro:impl_bit_op|fn $fn_assign(&mut self, rhs: &Uint<BITS, LIMBS>)|$fn_assign=bitand_assign", "bitand_assign", "U.bitand_assign", "g_bitand_assign", "uint"),
    ("src/bits.rs", "macro:impl_bit_op|fn $fn_assign(&mut self, rhs: &Uint<BITS, LIMBS>)|$fn_assign=bitxor_assign", "bitxor_assign", "U.bitxor_assign", "g_bitxor_assign", "uint"),
    ("src/bits.rs", "macro:impl_bit_op|fn $fn(mut self, rhs: Uint<BITS, LIMBS>)|$fn=bitor", "bitor", "U.bitor", "g_bitor", "uint"),
    ("src/bits.rs", "macro:impl_bit_op|fn $fn(mut self, rhs: Uint<BITS, LIMBS>)|$fn=bitand", "bitand", "U.bitand", "g_bitand", "uint"),
    ("src/bits.rs", "macro:impl_bit_op|fn $fn(mut self, rhs: Uint<BITS, LIMBS>)|$fn=bitxor", "bitxor", "U.bitxor", "g_bitxor", "uint"),
    ("src/bits.rs", UINT_IMPL, "arithmetic_shr", "U.arithmetic_shr", "g_arithmetic_shr", "uint"),
    ("src/bits.rs", UINT_IMPL, "rotate_left", "U.rotate_left", "g_rotate_left", "uint"),
    ("src/bits.rs", UINT_IMPL, "rotate_right", "U.rotate_right", "g_rotate_right", "uint"),
    ("src/special.rs", UINT_IMPL, "is_power_of_two", "U.is_power_of_two", "g_is_power_of_two", "uint"),
    ("src/special.rs", UINT_IMPL, "checked_next_power_of_two", "U.checked_next_power_of_two", "g_checked_next_power_of_two", "uint"),
    ("src/special.rs", UINT_IMPL, "next_power_of_two", "U.next_power_of_two", "g_next_power_of_two", "uint"),
    ("src/cmp.rs", "Ord for Uint<BITS, LIMBS>", "cmp", "U.cmp", "g_cmp", "uint"),
    ("src/div.rs", UINT_IMPL, "div_rem", "U.div_rem", "g_div_rem", "uint"),
    ("src/div.rs", UINT_IMPL, "wrapping_div", "U.wrapping_div", "g_wrapping_div", "uint"),
    ("src/div.rs", UINT_IMPL, "wrapping_rem", "U.wrapping_rem", "g_wrapping_rem", "uint"),
    ("src/div.rs", UINT_IMPL, "checked_div", "U.checked_div", "g_checked_div", "uint"),
    ("src/div.rs", UINT_IMPL, "checked_rem", "U.checked_rem", "g_checked_rem", "uint"),
    ("src/div.rs", UINT_IMPL, "div_ceil", "U.div_ceil", "g_div_ceil", "uint"),
    ("src/add.rs", UINT_IMPL, "checked_add", "U.checked_add", "g_checked_add", "uint"),
    ("src/special.rs", "pub fn next_multiple_of", "checked_next_multiple_of", "U.checked_next_multiple_of", "g_checked_next_multiple_of", "uint"),
    ("src/special.rs", UINT_IMPL, "next_multiple_of", "U.next_multiple_of", "g_next_multiple_of", "uint"),
    ("src/add.rs", UINT_IMPL, "overflowing_sub", "U.overflowing_sub", "g_overflowing_sub", "uint"),
    ("src/add.rs", UINT_IMPL, "overflowing_neg", "U.overflowing_neg", "g_overflowing_neg", "uint"),
    ("src/add.rs", UINT_IMPL, "checked_sub", "U.checked_sub", "g_checked_sub", "uint"),
    ("src/add.rs", UINT_IMPL, "checked_neg", "U.checked_neg", "g_checked_neg", "uint"),
    ("src/add.rs", UINT_IMPL, "saturating_add", "U.saturating_add", "g_saturating_add", "uint"),
    ("src/add.rs", UINT_IMPL, "saturating_sub", "U.saturating_sub", "g_saturating_sub", "uint"),
    ("src/add.rs", UINT_IMPL, "wrapping_sub", "U.wrapping_sub", "g_wrapping_sub", "uint"),
    ("src/add.rs", UINT_IMPL, "wrapping_neg", "U.wrapping_neg", "g_wrapping_neg", "uint"),
    ("src/add.rs", UINT_IMPL, "abs_diff", "U.abs_diff", "g_abs_diff", "uint"),
    ("src/algorithms/gcd/matrix.rs", "impl Matrix", "compose", "M.compose", "g_mat_compose", "matrix"),
    ("src/algorithms/gcd/matrix.rs", "impl Matrix", "from_u64", "M.from_u64", "g_mat_from_u64", "matrix"),
    ("src/algorithms/gcd/matrix.rs", "impl Matrix", "from_u64_prefix", "M.from_u64_prefix", "g_mat_from_u64_prefix", "matrix"),
    ("src/algorithms/gcd/matrix.rs", "impl Matrix", "from_u128_prefix", "M.from_u128_prefix", "g_mat_from_u128_prefix", "matrix"),
    ("src/algorithms/gcd/matrix.rs", "impl Matrix", "apply", "M.apply", "g_mat_apply", "matrix"),
    ("src/algorithms/gcd/matrix.rs", "impl Matrix", "from", "M.from", "g_mat_from", "matrix"),
    ("src/algorithms/gcd/matrix.rs", "impl Matrix", "apply_u128", "M.apply_u128", "g_mat_apply_u128", "matrix"),
    ("src/algorithms/gcd/mod.rs", None, "gcd", "gcd", "g_alg_gcd", None),
    ("src/algorithms/gcd/mod.rs", None, "gcd_extended", "gcd_extended", "g_alg_gcd_extended", None),
    ("src/algorithms/gcd/mod.rs", None, "inv_mod", "inv_mod", "g_alg_inv_mod", None),
    ("src/gcd.rs", UINT_IMPL, "gcd", "U.gcd", "g_u_gcd", "uint"),
    ("src/gcd.rs", UINT_IMPL, "lcm", "U.lcm", "g_u_lcm", "uint"),
    ("src/gcd.rs", UINT_IMPL, "gcd_extended", "U.gcd_extended", "g_u_gcd_extended", "uint"),
    ("src/modular.rs", UINT_IMPL, "inv_mod", "U.inv_mod", "g_u_inv_mod", "uint"),
    ("src/algorithms/div/mod.rs", None, "div", "div", "g_div", None),
    ("src/modular.rs", UINT_IMPL, "reduce_mod", "U.reduce_mod", "g_reduce_mod", "uint"),
    ("src/modular.rs", UINT_IMPL, "add_mod", "U.add_mod", "g_add_mod", "uint"),
    ("src/modular.rs", UINT_IMPL, "mul_mod", "U.mul_mod", "g_mul_mod", "uint"),
    ("src/modular.rs", UINT_IMPL, "pow_mod", "U.pow_mod", "g_pow_mod", "uint"),
    ("src/modular.rs", UINT_IMPL, "mul_redc", "U.mul_redc", "g_u_mul_redc", "uint"),
    ("src/modular.rs", UINT_IMPL, "square_redc", "U.square_redc", "g_u_square_redc", "uint"),
    ("src/bits.rs", UINT_IMPL, "reverse_bits", "U.reverse_bits", "g_reverse_bits", "uint"),
    ("src/bits.rs", UINT_IMPL, "most_significant_bits", "U.most_significant_bits", "g_most_significant_bits", "uint"),
    ("src/lib.rs", UINT_IMPL, "overflowing_from_limbs_slice", "U.overflowing_from_limbs_slice", "g_overflowing_from_limbs_slice", "uint"),
    ("src/lib.rs", UINT_IMPL, "from_limbs_slice", "U.from_limbs_slice", "g_from_limbs_slice", "uint"),
    ("src/lib.rs", UINT_IMPL, "checked_from_limbs_slice", "U.checked_from_limbs_slice", "g_checked_from_limbs_slice", "uint"),
    ("src/lib.rs", UINT_IMPL, "wrapping_from_limbs_slice", "U.wrapping_from_limbs_slice", "g_wrapping_from_limbs_slice", "uint"),
    ("src/lib.rs", UINT_IMPL, "saturating_from_limbs_slice", "U.saturating_from_limbs_slice", "g_saturating_from_limbs_slice", "uint"),
    ("src/log.rs", UINT_IMPL, "checked_log2", "U.checked_log2", "g_checked_log2", "uint"),
    ("src/log.rs", UINT_IMPL, "log2", "U.log2", "g_log2", "uint"),
    ("src/add.rs", "Sum<Self> for Uint<BITS, LIMBS>", "sum", "U.sum", "g_sum", "uint"),
    ("src/add.rs", "Sum<&'a Self> for Uint<BITS, LIMBS>", "sum", "U.sum_ref", "g_sum_ref", "uint"),
    ("src/mul.rs", "Product<Self> for Uint<BITS, LIMBS>", "product", "U.product", "g_product", "uint"),
    ("src/mul.rs", "Product<&'a Self> for Uint<BITS, LIMBS>", "product", "U.product_ref", "g_product_ref", "uint"),
    ("src/add.rs", "Neg for Uint<BITS, LIMBS>", "neg", "U.neg", "g_neg", "uint"),
    ("src/add.rs", "Neg for &Uint<BITS, LIMBS>", "neg", "U.neg_ref", "g_neg_ref", "uint"),
    ("src/pow.rs", UINT_IMPL, "overflowing_pow", "U.overflowing_pow", "g_overflowing_pow", "uint"),
    ("src/pow.rs", UINT_IMPL, "checked_pow", "U.checked_pow", "g_checked_pow", "uint"),
    ("src/pow.rs", UINT_IMPL, "saturating_pow", "U.saturating_pow", "g_saturating_pow", "uint"),
    ("src/pow.rs", UINT_IMPL, "wrapping_pow", "U.wrapping_pow", "g_wrapping_pow", "uint"),
    ("src/pow.rs", UINT_IMPL, "pow", "U.pow", "g_pow", "uint"),
    ("src/mul.rs", UINT_IMPL, "inv_ring", "U.inv_ring", "g_inv_ring", "uint"),
]


def translate(repo):
    tr = Tr()
    status = {}
    # `pub use self::{a as b, ...}` aliases of the translated files
    for rel in sorted({t[0] for t in TARGETS}):
        try:
            txt = open(os.path.join(repo, rel)).read()
        except OSError:
            continue
        for m in re.finditer(r"(\w+)\s+as\s+(\w+)", " ".join(re.findall(r"pub use self::\{([^}]*)\}", txt))):
            tr.alias[m.group(2)] = m.group(1)
    try:
        gm = open(os.path.join(repo, "src/algorithms/gcd/mod.rs")).read()
        for m in re.finditer(r"pub use self::\w+::(\w+) as (\w+);", gm):
            tr.alias[m.group(2)] = m.group(1)
    except OSError:
        pass
    # associated consts of Uint that the translated methods mention (inlined at each use)
    try:
        lib = open(os.path.join(repo, "src/lib.rs")).read()
        for cn in ("MASK", "SHOULD_MASK"):
            m = re.search(r"\bconst\s+%s\s*:\s*(\w+)\s*=\s*([^;]+);" % cn, lib)
            if m:
                tr.uconsts[cn] = (m.group(1), P(tokenize(m.group(2))).expr())
    except (OSError, Unsupported):
        pass
    try:
        mt = open(os.path.join(repo, "src/algorithms/gcd/matrix.rs")).read()
        for m in re.finditer(r"\bconst\s+(\w+)\s*:\s*Self\s*=\s*(Self\([^;]*\));", mt):
            tr.mconsts[m.group(1)] = P(tokenize(m.group(2))).expr()
    except (OSError, Unsupported):
        pass
    SYM = {"Add": "+", "Sub": "-", "Mul": "*", "Div": "/", "Rem": "%"}
    for rel in ("src/add.rs", "src/mul.rs", "src/div.rs"):
        try:
            txt = open(os.path.join(repo, rel)).read()
        except OSError:
            continue
        for m in re.finditer(r"impl_bin_op!\(\s*(\w+)\s*,\s*(\w+)\s*,\s*\w+\s*,\s*\w+\s*,\s*(\w+)\s*\)", txt):
            if m.group(1) in SYM:
                tr.binops[SYM[m.group(1)]] = m.group(3)
                tr.opmethods[m.group(2)] = m.group(3)
    try:
        bt = open(os.path.join(repo, "src/bits.rs")).read()
        mi = bt.find("macro_rules! impl_shift")
        if mi >= 0 and re.search(r"impl_shift!\(\s*usize\b", bt):
            for opname, sym in (("shl", "<<"), ("shr", ">>")):
                m = re.search(r"fn %s\(self, rhs: \$u\) -> Self::Output \{\s*self\.(\w+)\(rhs as usize\)\s*\}" % opname, bt[mi:])
                if m:
                    tr.shiftops[sym] = m.group(1)
    except OSError:
        pass
    for rel, marker, fname, cname, gname, selfty in TARGETS:
        try:
            txt = open(os.path.join(repo, rel)).read()
            if marker and marker.startswith("macro:"):
                # one arm of a macro_rules! definition, instantiated as the invocation in the file does
                mname, header, sub = marker[6:].split("|")
                k, v = sub.split("=")
                if not re.search(r"\b%s!\([^)]*\b%s\b[^)]*\)" % (mname, v), txt):
                    raise Unsupported("no invocation %s!(.. %s ..)" % (mname, v))
                mi = txt.find("macro_rules! " + mname)
                hj = txt.find(header, mi) if mi >= 0 else -1
                if hj < 0:
                    raise Unsupported("macro arm %r not found" % header)
                src = fn_text(txt[hj:].replace(k, v), fname)
                n0 = len(tr.out)
                try:
                    pure = tr.function(cname, gname, src, selfty)
                except Unsupported:
                    del tr.out[n0:]
                    raise
                status[gname] = "pure" if pure else "outcome"
                continue
            if fname.startswith("const:"):
                # an associated const: its initialiser is translated as a nullary function
                m = re.search(r"\bconst\s+%s\s*:\s*Self\s*=" % fname[6:], txt)
                if not m:
                    raise Unsupported("const %s not found" % fname[6:])
                j, depth = m.end(), 0
                while not (txt[j] == ";" and depth == 0):
                    depth += (txt[j] in "([{") - (txt[j] in ")]}")
                    j += 1
                src = "fn %s() -> Self { %s }" % (fname[6:], txt[m.end():j])
            else:
                src = fn_text(txt, fname, marker)
            n0 = len(tr.out)
            try:
                pure = tr.function(cname, gname, src, selfty)
            except Unsupported:
                del tr.out[n0:]
                raise
            status[gname] = "pure" if pure else "outcome"
        except (Unsupported, OSError, IndexError, ValueError, KeyError, AssertionError, RecursionError) as ex:
            status[gname] = "unsupported: %s" % ex
    head = ("(* GENERATED by tools_rs2v.py from the current text of /repo — do not edit.\n"
            "   One definition per translated Rust function; see Gen/Prim.v for the primitives. *)\n"
            "From RV.Model Require Import Base Word.\nFrom RV.Model Require Limbs Add Div UDiv Redc Conv.\nFrom RV.Gen Require Import Prim.\n\n")
    return head + "\n\n".join(tr.out) + "\n", status


def main():
    ap = argparse.ArgumentParser()
    ap.add_argument("--repo", default="/repo")
    ap.add_argument("--out", default=os.path.join(os.path.dirname(os.path.abspath(__file__)), "coq", "Gen", "Scalar.v"))
    a = ap.parse_args()
    text, status = translate(a.repo)
    old = open(a.out).read() if os.path.exists(a.out) else None
    if old != text:
        os.makedirs(os.path.dirname(a.out), exist_ok=True)
        open(a.out, "w").write(text)
    import json
    print(json.dumps({"changed": old != text, "functions": status}, indent=1))


if __name__ == "__main__":
    main()
