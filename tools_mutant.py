#!/usr/bin/env python3
"""tools_mutant.py <pid lower> <X> [--check ID]... : confirm a seeded change delivered under
/tmp/mut_out/<pid>/<X>/ in the scratch worktree /tmp/mut_<pid>, run ./check against it in a private
copy of /verif whose harness points at that worktree (so /repo is never touched while other work
uses it), and file it under /verif/seeded/<pid>_<X>/ ."""
import json, os, re, shutil, subprocess, sys
pid, X = sys.argv[1], sys.argv[2]
checks = [a for a in sys.argv[3:] if not a.startswith("--")] or [pid.upper()]
W = "/tmp/mut_%s" % pid
src = "/tmp/mut_out/%s/%s" % (pid, X)
V = "/tmp/w_mut_%s" % pid

def sh(cmd, cwd=None, timeout=3000):
    p = subprocess.run(cmd, shell=True, cwd=cwd, stdout=subprocess.PIPE, stderr=subprocess.STDOUT, text=True, timeout=timeout)
    return p.returncode, p.stdout

def suite():
    rc, out = sh("cargo test --workspace --no-fail-fast --offline 2>&1 | grep 'test result'", W)
    lines = out.strip().splitlines()
    return all(" ok." in l and " 0 failed" in l for l in lines) and len(lines) >= 4, lines

if not os.path.isdir(W):
    sh("git -C /repo worktree add --detach %s HEAD -q" % W)
res = {"property": pid.upper(), "mutant": X}
sh("git reset -q --hard && git clean -fdq", W)
head = sh("git -C /repo rev-parse HEAD")[1].strip()
sh("git checkout -q --detach %s" % head, W)          # the worktree follows /repo's HEAD
demo_name = "demo_%s_%s" % (pid, X.lower())
feat = ""
try:
    _m = re.search(r'--features[ =]+("[^"]*"|\S+)', json.load(open(os.path.join(src, "meta.json"))).get("demo_cmd", ""))
    if _m:
        feat = " --features " + _m.group(1)
except Exception:
    pass
os.makedirs(os.path.join(W, "tests"), exist_ok=True)
shutil.copy(os.path.join(src, "demo.rs"), os.path.join(W, "tests", demo_name + ".rs"))
rc0, out0 = sh("cargo test --offline%s --test %s 2>&1 | tail -5" % (feat, demo_name), W)
res["demo_passes_without_change"] = (rc0 == 0 and "test result: ok" in out0)
rc, out = sh("git apply %s/patch.diff" % src, W)
if rc != 0:
    rc, out = sh("git apply --3way %s/patch.diff && git reset -q" % src, W)
    if rc != 0:
        sh("git reset -q --hard", W)
res["patch_applies"] = rc == 0
rebased = sh("git diff", W)[1]
rc1, out1 = sh("cargo test --offline%s --test %s 2>&1 | tail -15" % (feat, demo_name), W)
res["demo_fails_with_change"] = "test result: FAILED" in out1 or "panicked" in out1
os.remove(os.path.join(W, "tests", demo_name + ".rs"))
ok, lines = suite()
res["suite_passes_with_change"] = ok
res["suite_lines"] = lines
# run the checks in a private copy of /verif pointing at the mutated worktree
sh("mkdir -p %s && rsync -a --delete --exclude replays --exclude evidence /verif/ %s/" % (V, V))
ct = open(V + "/harness/Cargo.toml").read().replace('path = "/repo"', 'path = "%s"' % W)
open(V + "/harness/Cargo.toml", "w").write(ct)
res["checks"] = {}
for cid in checks:
    rc, out = sh("./check %s 2>&1 | tail -4" % cid, V, timeout=3000)
    viol = [l for l in out.splitlines() if l.startswith("VIOLATION")]
    res["checks"][cid] = {"exit": rc, "violation": viol[:1], "tail": out.strip().splitlines()[-1:]}
    if viol:
        m = re.search(r"replay=(\S+)", viol[0])
        if m and os.path.exists(m.group(1)):
            rp = json.load(open(m.group(1)))
            res["checks"][cid]["replay_case"] = rp.get("case")
            res["checks"][cid]["kind"] = rp.get("kind")
sh("git checkout -- . && git clean -fdq", W)
dst = "/verif/seeded/%s_%s" % (pid, X)
os.makedirs(dst, exist_ok=True)
open(os.path.join(dst, "patch.diff"), "w").write(rebased)   # regenerated against /repo's HEAD
shutil.copy(os.path.join(src, "demo.rs"), dst)
meta = json.load(open(os.path.join(src, "meta.json"))) if os.path.exists(os.path.join(src, "meta.json")) else {}
meta["confirmed_by_us"] = res
json.dump(meta, open(os.path.join(dst, "meta.json"), "w"), indent=1)
if not os.environ.get("KEEP_COPY"):
    shutil.rmtree(V, ignore_errors=True)
    shutil.rmtree(os.path.join(W, "target"), ignore_errors=True)
print(json.dumps(res, indent=1))
