#!/usr/bin/env python3
"""tools_api_inventory.py [--md]

Inventory of the crate's public functions against what the correspondence harness exercises:
for every `pub fn` / `pub const fn` outside test modules of /repo/src/**.rs and ruint-macro it says
whether some harness bin (harness/src/bin/*.rs, vlib custom runners) calls a function of that name.
This is documentation of the trusted base ("which parts are modelled"), regenerated on demand; it
decides nothing.  With --md it prints the Markdown table used in DESIGN.md."""
import json, os, re, sys

VERIF = os.path.dirname(os.path.abspath(__file__))
REPO = "/repo"


def pub_fns(path):
    txt = open(path).read()
    cut = txt.find("#[cfg(test)]\nmod ")
    if cut >= 0:
        txt = txt[:cut]
    txt = re.sub(r"//[^\n]*", "", txt)
    out = []
    for m in re.finditer(r"\bpub\s+(?:const\s+)?(?:unsafe\s+)?fn\s+(\w+)", txt):
        out.append(m.group(1))
    return out


def main():
    used = ""
    for root in (os.path.join(VERIF, "harness", "src"), os.path.join(VERIF, "vlib")):
        for r, _, fs in os.walk(root):
            for f in fs:
                if f.endswith((".rs", ".py")):
                    used += open(os.path.join(r, f)).read() + "\n"
    rows, tot, cov = [], 0, 0
    files = []
    for r, _, fs in os.walk(os.path.join(REPO, "src")):
        for f in fs:
            if f.endswith(".rs"):
                files.append(os.path.join(r, f))
    files.append(os.path.join(REPO, "ruint-macro", "src", "lib.rs"))
    for p in sorted(files):
        rel = os.path.relpath(p, REPO)
        fns = sorted(set(pub_fns(p)))
        if not fns:
            continue
        hit = [f for f in fns if re.search(r"\b%s\b" % re.escape(f), used)]
        miss = [f for f in fns if f not in hit]
        tot += len(fns)
        cov += len(hit)
        rows.append((rel, len(fns), len(hit), miss))
    if "--md" in sys.argv:
        print("| file | public fns | exercised by the harness | not exercised |")
        print("|---|---|---|---|")
        for rel, n, h, miss in rows:
            print("| `%s` | %d | %d | %s |" % (rel, n, h, ", ".join("`%s`" % m for m in miss) or "—"))
        print("| **total** | %d | %d | |" % (tot, cov))
    else:
        print(json.dumps({"total": tot, "exercised": cov,
                          "not_exercised": {rel: miss for rel, n, h, miss in rows if miss}}, indent=1))


if __name__ == "__main__":
    main()
