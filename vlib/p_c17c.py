"""C17, part C — decoders of num-bigint, primitive-types, bytemuck and postgres (FromSql::from_sql for every
column type) are total on untrusted input.  Part module (umbrella: p_c17.PARTS)."""
from . import common as C
from . import c16c_ref as R
from . import p_c16c as p16

BIN = "c16c"
RUNMOD = "RunC17C"
FEATURES = ["codecs_c"]
RULE = ("per width and column type: valid wire encodings of boundary values with single-field mutations "
        "(byte flips, truncation, extension, leading zero bytes, BIT/VARBIT length field +-1/+-8/0/negative/huge "
        "and payload length mismatches at non-multiple-of-8 widths, NUMERIC header fields ndigits/weight/sign/"
        "dscale at 0, 1, -1, 0x7ffe, 0x7fff, 0x8000, 0x4000, digits 9999/10000/-1, text with upper case, 0X/0o/0b "
        "prefixes, underscores, invalid and multi-byte chars, invalid UTF-8, JSON quote variants, JSONB version "
        "bytes), random byte strings of length 0..BYTES+16 incl. the empty string for every type, MONEY at "
        "multiples of 100 +-1 and negative; BigUint/BigInt around 0, 2^BITS and multiples of 2^64, negative; "
        "primitive-types / bytemuck inputs of every length class")
SUSPECT = []

LEVEL = "proof"
TRUSTED = p16.TRUSTED
ASSUMPTIONS = ["target_endian = little, usize = 64 bits",
               "the integer an input denotes is defined by Spec/FmtC.v (pg_*_denotes): fixed-length big-endian two's "
               "complement integers, BYTEA = big-endian bytes (at most BYTES), BIT/VARBIT = i32 length + ceil(len/8) "
               "payload bytes, MSB first, padding bits ignored, NUMERIC = header + base-10000 digits without fraction, "
               "text = C09's FromStr specification on the UTF-8 decoded (JSON: unquoted) chars, floats = C18's rounding "
               "(NaN, infinities, negatives rejected), MONEY = floor(cents / 100) for cents >= 0",
               "which error is returned is pinned by the model (compared with the crate) but only `is an error` is "
               "demanded by spec"]
EXPLANATION = ("Theorem C17C_all: forall wf call of RunC17C, spec call (run call) = true: for every width, every column "
               "type code and every byte string from_sql returns (never Panic / DebugPanic) an error or Ok v with "
               "v < 2^BITS the integer the input denotes; TryFrom<BigUint>/<BigInt> = Ok iff 0 <= v < 2^BITS with the "
               "documented error kinds; primitive-types / bytemuck reads are total; pinned also as "
               "C17C_pg_from_sql_total")


def pg(bits, ty, raw):
    return "pg_from_sql %d Z:%x %s" % (bits, ty, C.tokY(raw))


def mutate(rng, raw):
    """single-field mutations of a byte string"""
    out = []
    n = len(raw)
    if n:
        i = rng.randrange(n)
        m = list(raw); m[i] ^= 1 << rng.randrange(8); out.append(m)
        m = list(raw); m[0] ^= 0x80; out.append(m)
        m = list(raw); m[-1] = rng.choice([0, 0xff, m[-1] ^ 1]); out.append(m)
        out.append(raw[:-1])
        out.append(raw[1:])
    out.append(raw + [0])
    out.append(raw + [0xff])
    out.append([0] + raw)
    return out


def bit_cases(rng, bits):
    """BIT/VARBIT payloads: declared length L vs. payload bytes"""
    out = []
    nb = R.nbytes(bits)
    for L in sorted({0, 1, 7, 8, 9, bits - 1, bits, bits + 1, bits + 7, bits + 8, 8 * nb, 8 * nb + 1, 63, 65, 250,
                     (1 << 31) - 1}):
        if L < 0:
            continue
        need = (L + 7) // 8
        if need > nb + 16:
            out.append(R.be(L, 4))                       # huge declared length, no payload
            out.append(R.be(L, 4) + [0xff] * nb)
            continue
        for fill in ("ff", "00", "rand", "top"):
            if fill == "ff":
                p = [0xff] * need
            elif fill == "00":
                p = [0] * need
            elif fill == "rand":
                p = [rng.randrange(256) for _ in range(need)]
            else:
                p = [0x80] + [0] * (need - 1) if need else []
            out.append(R.be(L, 4) + p)
        out.append(R.be(L, 4) + [0xff] * max(0, need - 1))   # payload one byte short
        out.append(R.be(L, 4) + [0xff] * (need + 1))         # one byte long
        out.append(R.be(L, 4))                               # empty payload
    for L in (-1, -8, -(1 << 31)):
        out.append(R.be(L, 4))
        out.append(R.be(L, 4) + [1])
    out += [[], [0], [0, 0, 0], [0, 0, 0, 0], [0xff] * 4, [0, 0, 0, 1], [0, 0, 0, 9, 0xff]]
    return out


def numeric_cases(rng, bits):
    out = []
    N = R.numeric
    H = [0, 1, 2, 0x7ffe, 0x7fff, 0x8000, 0xffff, 0x4000]
    for w in (0, 1, 2, 0x7ffe, 0x7fff, 0x8000, 0xffff):
        for ds in ([], [0], [1], [9999], [10000], [0xffff], [1, 0], [0, 1], [9999, 9999], [1, 10000], [10000, 1]):
            out.append(N(len(ds), w, 0, 0, ds))
    for nd in H:
        out.append(N(nd, 0, 0, 0, [1]))
        out.append(N(nd, 1, 0, 0, [1, 2]))
        out.append(N(nd, 0x7fff, 0, 0, []))
    for s in (0x4000, 0xc000, 1, 0x8000):
        out.append(N(1, 0, s, 0, [1]))
    for d in (1, 2, 0x7fff, 0xffff):
        out.append(N(1, 0, 0, d, [1]))
    out.append(N(1, 0, 0, 0, [1]) + [0])
    out.append(N(2, 1, 0, 0, [1]))
    out.append(N(1, 1, 0, 0, [1, 2]))
    out.append(N(2, 0, 0, 0, [1, 2]))       # ndigits > weight + 1 (fractional digits)
    out += [[], [0] * 7, [0] * 8, [0] * 9, [0xff] * 8]
    # values around 2^bits
    m = 1 << bits
    for v in (m - 1, m, m + 1, m * 10000, m // 10000):
        e = R.pg_encode(bits, R.NUMERIC, v)
        out.append(e)
        ds = R.digits_be(v, 10000)
        out.append(N(len(ds), max(len(ds) - 1, 0), 0, 0, ds))      # trailing zeros kept
        out.append(N(len(ds), len(ds), 0, 0, ds))                   # one more zero digit
    return out


def text_cases(rng, bits):
    m = 1 << bits
    out = []
    for v in (0, 1, m - 1, m, m + 1, 255, R.values(rng, bits, 1)[0]):
        for s in ("0x%x" % v, "0X%X" % v, "%d" % v, "0o%o" % v, "0b" + bin(v)[2:], "0x0%x" % v, "0x_%x_" % v,
                  "%x" % v, " 0x%x" % v, "0x%x " % v, "-%d" % v, "+%d" % v, "0x%xg" % v, "0x%xé" % v):
            out.append(s.encode())
    out += [b"", b"0x", b"0", b"x", b"0xg", b"\xff", b"0x\xc3", b"\xc3\xa9", b"0x1\x00", "éx12".encode(),
            "0é".encode(), b"\xe2\x82\xac", b"\xf0\x9f\x98\x80", b"\xc0\x80", b"\xed\xa0\x80"]
    return [list(x) for x in out]


def json_wrap(rng, texts):
    out = []
    for t in texts:
        r = rng.random()
        if r < 0.5:
            out.append([34] + t + [34])
        elif r < 0.6:
            out.append([34] + t)
        elif r < 0.7:
            out.append(t + [34])
        elif r < 0.8:
            out.append([34, 34] + t + [34, 34])
        else:
            out.append(t)
    out += [[34], [34, 34], [34, 34, 34], [34, 48, 34], [34, 0xc3, 0xa9, 34], [34, 0xc3, 34], [0xc3, 0xa9, 34],
            [34, 0xc3, 0xa9], [39, 48, 39]]
    return out


def int_cases(rng, n, signed):
    out = []
    M = 1 << (8 * n)
    vs = {0, 1, 2, 255, 256, M // 2 - 1, M // 2, M // 2 + 1, M - 1, M - 2}
    for k in (7, 8, 15, 16, 31, 32):
        if (1 << k) < M:
            vs |= {(1 << k) - 1, 1 << k, (1 << k) + 1}
    for v in sorted(vs):
        out.append(R.be(v, n))
    for ln in (0, 1, n - 1, n + 1, 2 * n):
        out.append([0] * ln)
        out.append([0xff] * ln)
        out.append([0] * (ln - 1) + [1] if ln else [])
    return out


def money_cases(rng):
    out = []
    for c in (0, 1, 99, 100, 101, 199, 200, -1, -99, -100, -101, 100 * R.MONEY_MAX, 100 * R.MONEY_MAX + 99,
              (1 << 63) - 1, -(1 << 63), -(1 << 63) + 1, 100 * (1 << 32), 100 * (1 << 32) - 1, 100 * (1 << 16),
              6553500, 6553600, 6553599, 25500, 25600, 100 * ((1 << 31) - 1)):
        out.append(R.be(c, 8))
    out += [[], [0] * 7, [0] * 9, [0xff] * 8]
    return out


FLOATS32 = [0x00000000, 0x80000000, 0x3f000000, 0x3effffff, 0x3f800000, 0xbf800000, 0xbf000000, 0xbeffffff,
            0x7f800000, 0xff800000, 0x7fc00000, 0x7f800001, 0x00000001, 0x4b800000, 0x4f000000, 0x4f800000,
            0x5f000000, 0x5f800000, 0x7f7fffff, 0x3fc00000, 0x40200000, 0x477fff00, 0x47800000]
FLOATS64 = [0, 1 << 63, 0x3fe0000000000000, 0x3fdfffffffffffff, 0x3ff0000000000000, 0xbff0000000000000,
            0xbfe0000000000000, 0x7ff0000000000000, 0xfff0000000000000, 0x7ff8000000000000, 0x7ff0000000000001,
            1, 0x4330000000000001, 0x4340000000000000, 0x43e0000000000000, 0x43f0000000000000,
            0x7fefffffffffffff, 0x3ff8000000000000, 0x4004000000000000, 0x40efffe000000000, 0x40f0000000000000]


def float_cases(rng, bits, ty):
    import struct
    n = 4 if ty == R.FLOAT4 else 8
    out = [R.be(x, n) for x in (FLOATS32 if n == 4 else FLOATS64)]
    m = 1 << bits
    for v in (m - 1, m, m + 1, m // 2, 2 * m):
        e = R.pg_encode(bits, ty, v)
        if e is not None:
            out.append(e)
            x = int.from_bytes(bytes(e), "big")
            out += [R.be(x - 1, n), R.be(x + 1, n)]
    out += [[], [0] * (n - 1), [0] * (n + 1), [0x3f] * (2 * n)]
    out.append([rng.randrange(256) for _ in range(n)])
    return out


def rand_bytes(rng, bits):
    n = rng.randrange(0, R.nbytes(bits) + 17)
    r = rng.random()
    if r < 0.15:
        return [0] * n
    if r < 0.3:
        return [0xff] * n
    if r < 0.5:
        return [rng.choice(b"0123456789abcdefxXob_\"") for _ in range(n)]
    return [rng.randrange(256) for _ in range(n)]


def type_cases(rng, bits, ty, reps):
    out = []
    if ty == R.BOOL:
        out += [[0], [1], [2], [0xff], [], [0, 0], [1, 0], [0, 1]]
    elif ty in (R.INT2, R.INT4, R.OID, R.INT8):
        out += int_cases(rng, {R.INT2: 2, R.INT4: 4, R.OID: 4, R.INT8: 8}[ty], ty != R.OID)
    elif ty in (R.FLOAT4, R.FLOAT8):
        out += float_cases(rng, bits, ty)
    elif ty == R.MONEY:
        out += money_cases(rng)
    elif ty == R.BYTEA:
        nb = R.nbytes(bits)
        m = 1 << bits
        for v in (0, 1, m - 1, m, m + 1, (1 << (8 * nb)) - 1):
            if v < (1 << (8 * nb)):
                out.append(R.be(v, nb))
        out += [[], [0] * (nb + 1), [0] * (nb + 16), [0xff] * nb, [0xff] * (nb + 1), [1] + [0] * nb]
    elif ty in (R.BIT, R.VARBIT):
        out += bit_cases(rng, bits)
    elif ty in (R.CHAR, R.TEXT, R.VARCHAR):
        out += text_cases(rng, bits)
    elif ty == R.JSON:
        out += json_wrap(rng, text_cases(rng, bits))
    elif ty == R.JSONB:
        js = json_wrap(rng, text_cases(rng, bits))
        out += [[1] + j for j in js]
        out += [[], [0], [2], [0, 34, 48, 34], [2, 34, 48, 34], [34, 48, 34], [1], [1, 34], [1, 34, 34]]
    elif ty == R.NUMERIC:
        out += numeric_cases(rng, bits)
    else:
        out += [[], [0], [0] * 8, [0] * 16]
    # valid encodings of values + single-field mutations
    if ty < 17:
        for v in R.values(rng, bits, reps):
            e = R.pg_encode(bits, ty, v)
            if e is None:
                continue
            out.append(e)
            ms = mutate(rng, e)
            out += ms if reps > 6 else rng.sample(ms, min(3, len(ms)))
    for _ in range(reps):
        out.append(rand_bytes(rng, bits))
    return [x for x in out if x is not None]


def bigint_values(rng, bits):
    m = 1 << bits
    vs = {0, 1, -1, m - 1, m, m + 1, -m, -(m - 1), -(m + 1), 1 << 64, (1 << 64) - 1, -(1 << 64), m << 64, m << 1,
          (m << 64) + 5, 3 * (1 << 64) + 5, -(3 * (1 << 64) + 5), 1 << (bits + 63), (1 << (64 * C.nlimbs(bits))),
          (1 << (64 * C.nlimbs(bits))) - 1}
    for _ in range(4):
        v = rng.getrandbits(rng.randrange(1, bits + 131))
        vs |= {v, -v}
        vs.add(C.rand_value(rng, bits))
    return sorted(vs)


def zhex(v):
    return "Z:%x" % v if v >= 0 else "Z:-%x" % (-v)


def fixed_cases(rng, reps):
    out = []
    for bits in R.PT_WIDTHS:
        for v in R.values(rng, bits, reps) + [(1 << bits) - 1, 0]:
            out.append("pt_from %d %s" % (bits, C.tokU(bits, v)))
    for bits in R.PTH_WIDTHS:
        for v in R.values(rng, bits, reps) + [(1 << bits) - 1, 0]:
            out.append("pth_from %d %s" % (bits, C.tokY(R.be(v, bits // 8))))
    for bits in R.POD_WIDTHS:
        n = bits // 8
        for v in R.values(rng, bits, max(2, reps // 2)) + [(1 << bits) - 1]:
            out.append("bm_read %d %s" % (bits, C.tokY(R.be(v, n)[::-1])))
            out.append("bm_cast_from %d %s" % (bits, C.tokU(bits, v)))
        for ln in (0, 1, n - 1, n + 1, n + 8, 2 * n, 8):
            if ln != n:
                out.append("bm_read %d %s" % (bits, C.tokY([rng.randrange(256) for _ in range(ln)])))
    return out


def corpus():
    out = []
    # F13 regressions (fixed): JSONB empty input, VARBIT empty payload with a non-multiple-of-8 length,
    # NUMERIC weight 0x7fff (i16 `exponent + 1`)
    for bits in (64, 7, 250, 0):
        out.append(pg(bits, R.JSONB, []))
        for ty in (R.BIT, R.VARBIT):
            out.append(pg(bits, ty, [0, 0, 0, 1]))
            out.append(pg(bits, ty, [0, 0, 0, 9, 0xff]))
            out.append(pg(bits, ty, [0, 0, 0, 9]))
        out.append(pg(bits, R.NUMERIC, R.numeric(1, 0x7fff, 0, 0, [0])))
        out.append(pg(bits, R.NUMERIC, R.numeric(1, 0x7fff, 0, 0, [1])))
        out.append(pg(bits, R.NUMERIC, R.numeric(0, 0x7fff, 0, 0, [])))
        out.append(pg(bits, R.NUMERIC, R.numeric(0x7fff, 0x7fff, 0, 0, [])))
    # F5b regression (fixed): BYTEA / BIT reach try_from_be_slice with BYTES%8 = 0 and BITS%64 != 0
    for bits in (60, 63, 127, 190, 250, 255):
        nb = R.nbytes(bits)
        out.append(pg(bits, R.BYTEA, [0xff] * nb))
        out.append(pg(bits, R.VARBIT, R.be(8 * nb, 4) + [0xff] * nb))
        out.append(pg(bits, R.BIT, R.be(8 * nb, 4) + [0xff] * nb))
    # 88b88ad regression (fixed): JSON / JSONB consisting of a single quote (was `&str[1..0]`)
    for bits in (64, 0, 257):
        out.append(pg(bits, R.JSON, [0x22]))
        out.append(pg(bits, R.JSONB, [1, 0x22]))
        out.append(pg(bits, R.JSON, [0x22, 0x22]))
    # 9f3766c regression (fixed): MONEY -0.01 .. -0.99 was accepted as zero
    for bits in (64, 1, 256):
        for c in (-1, -99, -100, -101, 99, 100):
            out.append(pg(bits, R.MONEY, R.be(c, 8)))
    # F4-style payloads through num-bigint
    out += ["bigint_from 65 Z:0 Z:30000000000000005", "bigint_from 65 Z:2 Z:-30000000000000005",
            "bigint_from 0 Z:1 Z:0", "bigint_from 0 Z:3 Z:1", "bigint_from 0 Z:2 Z:-1"]
    return [ln for ln in out if ln not in SUSPECT]


def gen(rng, tier):
    widths = C.WIDTHS_QUICK if tier == "quick" else C.WIDTHS_QUICK + C.WIDTHS_MORE
    reps = 3 if tier == "quick" else 16
    out = []
    for bits in widths:
        for v in bigint_values(rng, bits):
            ks = [0, 1, 2, 3] if v >= 0 else [2, 3]
            if tier == "quick" and rng.random() < 0.4:
                continue
            for k in (ks if tier != "quick" else rng.sample(ks, 1)):
                out.append("bigint_from %d Z:%x %s" % (bits, k, zhex(v)))
        for ty in R.ALL_TYPES:
            cs = type_cases(rng, bits, ty, reps)
            if tier == "quick" and len(cs) > 10:
                # every class is still met at several of the 24 widths
                cs = rng.sample(cs, 10)
            for raw in cs:
                out.append(pg(bits, ty, raw))
    out += fixed_cases(rng, reps + 1)
    return [ln for ln in out if ln not in SUSPECT]


nontrivial = R.nontrivial


def known_class(finding, line):
    return False
