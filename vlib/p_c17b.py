"""C17 part B — decoders of the SCALE (plain + compact), SSZ, borsh and DER integrations on
untrusted input: case generator (part module of vlib/p_c17.py)."""
from . import common as C

BIN = "c16b"
RUNMOD = "RunC17B"
FEATURES = ["codecs_b"]

SUSPECT = []


def nbytes(bits):
    return (bits + 7) // 8


def le(v, n):
    return [(v >> (8 * i)) & 0xff for i in range(n)]


def minlen(v):
    return (v.bit_length() + 7) // 8


def compact(v):
    if v < 1 << 6:
        return [4 * v]
    if v < 1 << 14:
        return le(4 * v + 1, 2)
    if v < 1 << 30:
        return le(4 * v + 2, 4)
    n = minlen(v)
    return [((n - 4) << 2 | 3) & 0xff] + le(v, n)


def scale_uint(bits, v):
    by = nbytes(bits)
    return compact(by) + le(v, by)


def der_len(n):
    if n < 128:
        return [n]
    k = minlen(n)
    return [0x80 + k] + le(n, k)[::-1]


def der_content(v):
    bs = le(v, minlen(v))[::-1]
    if not bs:
        return [0]
    if bs[0] >= 0x80:
        return [0] + bs
    return bs


def der_integer(v):
    c = der_content(v)
    return [2] + der_len(len(c)) + c


def values(rng, bits, n):
    m = 1 << bits
    pool = [0, 1, 63, 64, (1 << 14) - 1, 1 << 14, (1 << 30) - 1, 1 << 30, 127, 128, 255, 256,
            (1 << 32) - 1, 1 << 32, (1 << 56) - 1, 1 << 56, (1 << 64) - 1, 1 << 64,
            (1 << 120) - 1, 1 << 120, (1 << 128) - 1, 1 << 128, m - 1, m >> 1, (m >> 1) - 1]
    pool = [v for v in pool if 0 <= v < m]
    out = [rng.choice(pool) for _ in range(n // 2 + 1)]
    for _ in range(n - len(out)):
        if rng.random() < 0.4 and bits > 0:
            k = rng.randrange(1, bits + 1)
            out.append(rng.getrandbits(k) | (1 << (k - 1)))
        else:
            out.append(C.rand_value(rng, bits))
    return out


def over_values(rng, bits):
    """values >= 2^bits that still fit the byte length, and a bit beyond"""
    m = 1 << bits
    by = nbytes(bits)
    out = [m, m + 1, m | (m >> 1)]
    if bits % 8:
        out += [(1 << (8 * by)) - 1, m | rng.getrandbits(bits) if bits else m]
    out += [1 << (8 * by), (1 << (8 * by + 8)) - 1]
    return out


def mutate(rng, bs):
    """single-field mutations of an encoding"""
    bs = list(bs)
    out = []
    if bs:
        out.append(bs[:-1])                                   # truncated by one
        out.append(bs[:rng.randrange(0, len(bs))])            # truncated anywhere
        for i in sorted({0, min(1, len(bs) - 1), len(bs) - 1, rng.randrange(len(bs))}):
            b = list(bs)
            b[i] = (b[i] + rng.choice([1, 0xff, 0x80, 4, 0xfc])) & 0xff   # +1, -1, top bit, mode/len +-1
            out.append(b)
            b = list(bs)
            b[i] = rng.choice([0, 0xff, 0x80, 0x7f])
            out.append(b)
    out.append(bs + [0])                                      # trailing zero
    out.append(bs + [rng.randrange(256)])                     # trailing junk
    return out


def rand_string(rng, n):
    r = rng.random()
    if r < 0.2:
        return [rng.choice([0, 0xff]) for _ in range(n)]
    if r < 0.3:
        return [0] * n
    return [rng.randrange(256) for _ in range(n)]


def Y(f, bits, bs, extra=None):
    if extra is None:
        return "%s %d %s" % (f, bits, C.tokY(bs))
    return "%s %d %s %s" % (f, bits, extra, C.tokY(bs))


# ---------------------------------------------------------------- per decoder
def compact_noncanonical(v):
    """non-minimal compact encodings of v (wider mode / padded big-integer mode)"""
    out = []
    if v < 1 << 14:
        out.append(le(4 * v + 1, 2))
    if v < 1 << 30:
        out.append(le(4 * v + 2, 4))
    for n in (4, 5, 8, 9, 16, 17, minlen(v) + 1, 67):
        if minlen(v) <= n <= 67 and n >= 4:
            out.append([((n - 4) << 2) | 3] + le(v, n))
    return out


def scale_cases(rng, bits, n):
    by = nbytes(bits)
    out = []
    for v in values(rng, bits, n):
        e = scale_uint(bits, v)
        out.append(e)
        out += mutate(rng, e)
        # shorter vectors (accepted: denote the same value), longer, wrong length prefix
        k = minlen(v)
        out.append(compact(k) + le(v, k))
        out.append(compact(by + 1) + le(v, by + 1))
        out.append(compact(by + 1) + le(v, by))
        if by > 0:
            out.append(compact(by - 1) + le(v, by))
        # non-minimal length prefix
        if by < 1 << 14:
            out.append(le(4 * by + 1, 2) + le(v, by))
        out.append(le(4 * by + 2, 4) + le(v, by))
        out.append([3] + le(by, 4) + le(v, by))
        out.append([7] + le(by, 5) + le(v, by))
    for v in over_values(rng, bits):
        k = max(by, minlen(v))
        out.append(compact(k) + le(v, k))
    for _ in range(n):
        out.append(rand_string(rng, rng.randrange(0, by + 17)))
    return out


def compact_cases(rng, bits, n):
    by = nbytes(bits)
    out = []
    for v in values(rng, bits, n):
        e = compact(v)
        out.append(e)
        out += mutate(rng, e)
        out += compact_noncanonical(v)
    for v in over_values(rng, bits):
        if v < 1 << 536:
            out.append(compact(v))
            out += compact_noncanonical(v)[:3]
    # every prefix class, truncated and zero-padded
    for p in (0x00, 0xfc, 0x01, 0xfd, 0x02, 0xfe, 0x03, 0x07, 0x13, 0x17, 0x33, 0x37, 0xff, 0xfb):
        nb = (p >> 2) + 4 if p & 3 == 3 else [1, 2, 4][p & 3] - 1
        out.append([p])
        out.append([p] + [0] * nb)
        out.append([p] + [0xff] * nb)
        out.append([p] + [0] * (nb - 1) + [1] if nb > 0 else [p, 1])
        out.append([p] + [0xff] * max(0, nb - 1))
    out.append([])
    for _ in range(n):
        out.append(rand_string(rng, rng.randrange(0, min(by, 67) + 17)))
    return out


def fixed_cases(rng, bits, n):
    by = nbytes(bits)
    out = []
    for v in values(rng, bits, n):
        e = le(v, by)
        out.append(e)
        out += mutate(rng, e)
    for v in over_values(rng, bits):
        out.append(le(v, by))
        out.append(le(v, max(by, minlen(v))))
    for k in sorted({0, 1, by - 1, by, by + 1, by + 8, by + 16}):
        if k >= 0:
            out.append([0] * k)
            out.append([0xff] * k)
    for _ in range(n):
        out.append(rand_string(rng, rng.randrange(0, by + 17)))
    return out


def der_cases(rng, bits, n):
    by = nbytes(bits)
    out = []
    for v in values(rng, bits, n) + over_values(rng, bits)[:4]:
        e = der_integer(v)
        c = der_content(v)
        out.append(e)
        out += mutate(rng, e)
        out.append([2] + der_len(len(c) + 1) + [0] + c)                  # redundant leading 0x00
        out.append([2] + der_len(len(c) + 2) + [0, 0] + c)
        if c[0] == 0 and len(c) > 1:
            out.append([2] + der_len(len(c) - 1) + c[1:])                # sign octet dropped: negative
        out.append([2] + der_len(len(c) + 1) + [0xff] + c)               # negative
        if len(c) < 128:
            out.append([2, 0x81, len(c)] + c)                            # non-minimal length forms
        out.append([2, 0x82, len(c) >> 8, len(c) & 0xff] + c)
        out.append([2, 0x84] + le(len(c), 4)[::-1] + c)
        out.append([2, 0x85] + le(len(c), 5)[::-1] + c)
        out.append([2, 0x80] + c + [0, 0])                               # indefinite
        for t in (0x00, 0x01, 0x03, 0x04, 0x0a, 0x1f, 0x22, 0x30, 0x42, 0x82, 0xbf, 0xff, 0x07):
            if rng.random() < 0.25:
                out.append([t] + e[1:])                                  # other tags
    out += [[], [2], [2, 0], [2, 1], [2, 0x81], [2, 0x81, 0x80], [2, 0x82, 0], [2, 0x84, 0xff, 0xff, 0xff, 0xff],
            [2, 0x84, 0x10, 0, 0, 0], [2, 0x84, 0x0f, 0xff, 0xff, 0xff], [2, 0x83, 1, 0, 0], [2, 0x7f], [2, 0xff],
            [2, 1, 0x80], [2, 1, 0x7f], [2, 2, 0, 0x7f], [2, 2, 0, 0x80], [2, 1, 0, 0], [0x1f, 1, 0], [0x42, 1, 0],
            [0x07, 1, 0], [0x30, 0], [2, by + 2] + [0] * (by + 2), [2, by + 1] + [0] + [0xff] * by]
    for _ in range(n):
        out.append(rand_string(rng, rng.randrange(0, by + 17)))
        s = rand_string(rng, rng.randrange(0, by + 3))
        out.append([2] + der_len(len(s)) + s)                            # well-framed random content
    return out


def der_obj_cases(rng, bits, n):
    """content / magnitude octets for the Int, DerUint and Any conversions"""
    by = nbytes(bits)
    out = []
    for v in values(rng, bits, n) + over_values(rng, bits)[:4]:
        c = der_content(v)
        out.append(c)
        out.append([0] + c)
        out.append([0, 0] + c)
        out.append([0xff] + c)
        out.append([0xff, 0xff] + c)
        if c[0] == 0 and len(c) > 1:
            out.append(c[1:])
        out += mutate(rng, c)[:6]
    out += [[], [0], [0, 0], [0x80], [0xff], [0xff, 0xff], [0xff, 0x7f], [0, 0x80], [0, 0x7f], [1] + [0] * by,
            [0] * (by + 2), [0x7f] * (by + 1)]
    for _ in range(n):
        out.append(rand_string(rng, rng.randrange(0, by + 17)))
    return out


DECODERS = [
    ("scale_decode", scale_cases, None),
    ("scale_compact_decode", compact_cases, None),
    ("ssz_decode", fixed_cases, None),
    ("borsh_de", fixed_cases, "shape"),
    ("der_decode", der_cases, None),
    ("der_from_int", der_obj_cases, None),
    ("der_from_uint", der_obj_cases, None),
    ("der_from_any", der_obj_cases, None),
]


def emit(rng, f, bits, strings, extra):
    out = []
    for s in strings:
        if extra == "shape":
            out.append(Y(f, bits, s, "Z:%d" % rng.randrange(2)))
        else:
            out.append(Y(f, bits, s))
    return out


def corpus():
    out = []
    # F11 (fixed): SSZ from_ssz_bytes panicked on out-of-range bytes, accepted short input
    out += ["ssz_decode 7 Y:ff", "ssz_decode 64 Y:", "ssz_decode 64 Y:01", "ssz_decode 9 Y:ffff",
            "ssz_decode 1 Y:02", "ssz_decode 0 Y:", "ssz_decode 0 Y:00"]
    # F5b (fixed): try_from_le/be_slice fast path at BYTES % 8 == 0, BITS % 64 != 0
    for bits in (60, 63, 127, 190, 250, 255):
        by = nbytes(bits)
        ff = [0xff] * by
        out.append(Y("ssz_decode", bits, ff))
        out.append(Y("borsh_de", bits, ff, "Z:0"))
        out.append(Y("borsh_de", bits, ff, "Z:1"))
        out.append(Y("scale_decode", bits, compact(by) + ff))
        out.append(Y("scale_compact_decode", bits, [((by - 4) << 2) | 3] + ff))
        out.append(Y("der_decode", bits, [2] + der_len(by) + [0x7f] + ff[1:]))
        out.append(Y("der_decode", bits, [2] + der_len(by + 1) + [0] + ff))
        out.append(Y("der_from_int", bits, [0] + ff))
        out.append(Y("der_from_uint", bits, ff))
        out.append(Y("der_from_any", bits, [0] + ff))
    # the crate's literal: borsh deser_invalid_value
    out.append("borsh_de 31 Z:0 Y:ffffffff")
    # compact above the limit: documented panic
    for bits in (536, 1024):
        out += [Y("scale_compact_decode", bits, []), Y("scale_compact_decode", bits, [0]),
                Y("scale_compact_decode", bits, compact(1 << 100))]
    # compact at 520 bits: 65/66/67-byte big-integer mode
    for n in (64, 65, 66, 67):
        for top in (1, 0xff, 0):
            out.append(Y("scale_compact_decode", 520, [((n - 4) << 2) | 3] + [0xff] * (n - 1) + [top]))
            out.append(Y("scale_compact_decode", 512, [((n - 4) << 2) | 3] + [0] * (n - 1) + [top]))
    # DER long-form lengths: 127/128/129-byte contents at 1024 bits
    for v in (1 << 1007, (1 << 1008) - 1, 1 << 1015, (1 << 1016) - 1, 1 << 1016, (1 << 1024) - 1, 1 << 1023):
        e = der_integer(v)
        c = der_content(v)
        out.append(Y("der_decode", 1024, e))
        out.append(Y("der_decode", 1024, [2, 0x82, 0, len(c)] + c))
        out.append(Y("der_decode", 1024, e[:-1]))
        out.append(Y("der_decode", 1024, e + [0]))
        if len(c) < 128:
            out.append(Y("der_decode", 1024, [2, 0x81, len(c)] + c))
    return [x for x in out if x not in SUSPECT]


def gen(rng, tier):
    widths = C.WIDTHS_QUICK if tier == "quick" else C.WIDTHS_QUICK + C.WIDTHS_MORE
    n = 3 if tier == "quick" else 14
    out = []
    for bits in widths:
        for f, mk, extra in DECODERS:
            strings = mk(rng, bits, n)
            if tier == "quick" and len(strings) > 46:
                head = strings[:6]
                strings = head + rng.sample(strings[6:], 40)
            out += emit(rng, f, bits, strings, extra)
    return [x for x in out if x not in SUSPECT]


def nontrivial(line):
    p = line.split()
    if p[1] == "0":
        return False
    for t in p[2:]:
        if t.startswith("Y:") and t[2:].strip("0") != "":
            return True
    return False


def known_class(finding, line):
    return False
