"""C18 — float <-> Uint conversions: case generator and metadata."""
from . import common as C

PID = "C18"
BIN = "c18"
RUNMOD = "RunC18"
LEVEL = "proof"
RULE = ("float -> Uint: IEEE bit patterns (f64 and f32) at every harness width x {try_from, from, "
        "saturating_from, wrapping_from}: +-0, +-inf, quiet/signalling NaN payloads, subnormals, values "
        "around 0.5 and 1, halves k+0.5 (k odd/even), odd/even integers in [2^(p-1), 2^p), 2^BITS-0.5, "
        "2^BITS, 2^BITS +- ulp, multiples beyond 2^BITS, MAX, negatives of all of these, uniform patterns; "
        "Uint -> float: values q*2^s + t with q a full p-bit mantissa (odd/even/all-ones) and tail t "
        "just below / at / above the rounding midpoint, tails below the top 64 bits, all-ones, powers of "
        "two +-1, values around the +inf threshold 2^emax - 2^(emax-p-1) at widths > emax; pairs (a, b) with "
        "b = a, a+1, and around midpoints for monotonicity; a case is non-trivial when BITS > 0 and the "
        "input is not +0 / 0")
TRUSTED = ["Coq 8.16.1 kernel + vm_compute",
           "hand-written Gallina model coq/Model/Float.v over Coq.Floats.SpecFloat (+ Base, Word, Add)",
           "correspondence harness harness/src/bin/c18.rs + vlib (python) translation of tokens",
           "rustc/LLVM/hardware IEEE-754 semantics of f64/f32 compare, abs, %, `as`, *, to_bits"]
ASSUMPTIONS = ["(k as f64).exp2() / (k as f32).exp2() of an integer k >= 0 is exact (2^k, +inf from 1024 / 128 on)",
               "BITS as f64 / exponent as f32 are exact (BITS < 2^24) and BITS + 52 does not overflow usize",
               "`u64 as f64/f32` is SpecFloat.binary_normalize (round to nearest, ties to even), `*` is SFmul, "
               "`f32 as f64` is exact, `%` is the exact remainder (SFrem in Model/Float.v)",
               "NaN sign/payload produced by inf % x is not observed (only is_nan is tested)"]
EXPLANATION = ("Theorem C18_holds: forall wf call, spec call (run call) = true, for all BITS >= 0, all f64/f32 bit "
               "patterns and all canonical Uint values; the correspondence run evaluates model and spec on the "
               "implementation's actual outputs inside coqc")

SUSPECT = []

FROM_FNS = ["try_from", "from", "saturating_from", "wrapping_from"]


# ---------------------------------------------------------------- float patterns
class Fmt:
    def __init__(self, name, prec, emax, ebits):
        self.name, self.p, self.emax, self.ebits = name, prec, emax, ebits
        self.fb = prec - 1
        self.bias = emax - 1
        self.total = 1 + ebits + self.fb

    def pat(self, sign, be, frac):
        return (sign << (self.total - 1)) | (be << self.fb) | frac

    def of_int_exp(self, m, e, sign=0):
        """pattern of m * 2^e for m with <= p significant bits (exactly representable), or None"""
        if m == 0:
            return self.pat(sign, 0, 0)
        k = m.bit_length() - 1
        E = k + e                      # unbiased exponent
        if E + self.bias >= 2 * self.emax - 1:
            return None
        if E + self.bias >= 1:
            sh = self.fb - k
            mm = m << sh if sh >= 0 else m >> (-sh)
            if (sh < 0 and (mm << (-sh)) != m):
                return None
            return self.pat(sign, E + self.bias, mm - (1 << self.fb))
        # subnormal
        sh = e - (2 - self.emax - self.fb)
        if sh < 0:
            if m & ((1 << -sh) - 1):
                return None
            return self.pat(sign, 0, m >> -sh)
        return self.pat(sign, 0, m << sh)


F64 = Fmt("f64", 53, 1024, 11)
F32 = Fmt("f32", 24, 128, 8)


def float_patterns(rng, F, bits, n_random):
    """bit patterns of the format F interesting for the target width `bits`"""
    P = set()
    fb, p = F.fb, F.p
    fmask = (1 << fb) - 1
    emx = 2 * F.emax - 1

    def add(x):
        if x is not None:
            P.add(x)

    def addpm(x):          # x, its two neighbours in pattern order and their negatives
        if x is None:
            return
        for d in (-1, 0, 1):
            y = x + d
            if 0 <= y < (1 << (F.total - 1)):
                P.add(y)
                P.add(y | (1 << (F.total - 1)))

    # specials
    for s in (0, 1):
        add(F.pat(s, 0, 0))
        add(F.pat(s, emx, 0))
        add(F.pat(s, emx, 1))                       # signalling NaN
        add(F.pat(s, emx, 1 << (fb - 1)))           # quiet NaN
        add(F.pat(s, emx, fmask))
        add(F.pat(s, emx, rng.getrandbits(fb) | 1))
        add(F.pat(s, 0, 1))
        add(F.pat(s, 0, fmask))
        add(F.pat(s, 0, rng.getrandbits(fb) | 1))
        add(F.pat(s, 1, 0))
        add(F.pat(s, emx - 1, fmask))               # MAX
        add(F.pat(s, emx - 1, 0))
    # around 0.5, 1, 1.5, 2, 2.5
    for (m, e) in ((1, -2), (1, -1), (3, -2), (1, 0), (3, -1), (1, 1), (5, -1), (7, -1), (255, -1), (511, -1)):
        addpm(F.of_int_exp(m, e))
    # halves k + 0.5
    for _ in range(4):
        kb = rng.randrange(1, p - 1)
        k = rng.getrandbits(kb) | (1 << (kb - 1))
        addpm(F.of_int_exp(2 * k + 1, -1))
        addpm(F.of_int_exp(2 * (k | 1) + 1, -1))
        addpm(F.of_int_exp(2 * (k & ~1) + 1, -1))
    # quarter fractions
    for _ in range(2):
        kb = rng.randrange(1, p - 2)
        k = rng.getrandbits(kb) | (1 << (kb - 1))
        add(F.of_int_exp(4 * k + 1, -2))
        add(F.of_int_exp(4 * k + 3, -2))
    # integers in [2^(p-1), 2^p): odd / even, ends
    lo, hi = 1 << (p - 1), 1 << p
    for m in (lo, lo + 1, lo + 2, lo + 3, hi - 1, hi - 2, hi - 3,
              lo + (rng.getrandbits(p - 1) | 1), lo + (rng.getrandbits(p - 1) & ~1)):
        add(F.of_int_exp(m, 0))
        add(F.of_int_exp(m, 0, 1))
    # integers in [2^(p-2), 2^(p-1)) + 0.5
    for m in ((1 << (p - 1)) + 1, hi - 1, (1 << (p - 1)) + (rng.getrandbits(p - 1) | 1)):
        add(F.of_int_exp(m, -1))
        add(F.of_int_exp(m, -1, 1))
    # around 2^bits
    addpm(F.of_int_exp(1, bits))
    if bits >= 1:
        addpm(F.of_int_exp(1, bits - 1))
        add(F.of_int_exp(3, bits - 1))               # 1.5 * 2^bits
        add(F.of_int_exp(3, bits - 1, 1))
    add(F.of_int_exp(1, bits + 1))
    add(F.of_int_exp(3, bits))
    add(F.of_int_exp((1 << p) - 1, bits))
    add(F.of_int_exp((1 << p) - 1, bits + 1 - p + 1))
    for d in (p - 2, p - 1, p, p + 1):
        add(F.of_int_exp(1, bits + d))
        add(F.of_int_exp((1 << p) - 1, bits + d - p + 1))
        add(F.of_int_exp(rng.getrandbits(p) | (1 << (p - 1)), bits + d - p + 1))
    if bits <= p - 1:
        add(F.of_int_exp((1 << (bits + 1)) - 1, -1))          # 2^bits - 0.5
        add(F.of_int_exp((1 << (bits + 1)) - 1, -1, 1))
        add(F.of_int_exp((1 << (bits + 2)) - 3, -2))          # 2^bits - 0.75
        add(F.of_int_exp((1 << (bits + 2)) - 1, -2))          # 2^bits - 0.25
        add(F.of_int_exp((1 << (bits + 1)) + 1, -1))          # 2^bits + 0.5
        add(F.of_int_exp((1 << (bits + 1)) + (1 << bits) - 1, -1))   # 1.5 * 2^bits - 0.5
        add(F.of_int_exp((1 << (bits + 2)) - 1, -1))          # 2^(bits+1) - 0.5  (wraps to 2^bits)
    # full mantissas just below / in the width
    for _ in range(3):
        m = rng.getrandbits(p) | (1 << (p - 1))
        for e in (bits - p, bits - p - 1, bits - p + 1, bits - p // 2, -rng.randrange(1, p)):
            add(F.of_int_exp(m, e))
            if rng.random() < 0.3:
                add(F.of_int_exp(m, e, 1))
        add(F.of_int_exp((1 << p) - 1, bits - p))             # largest float below 2^bits
    # exponent sweep
    for _ in range(n_random):
        r = rng.random()
        if r < 0.5:
            be = max(0, min(emx, F.bias + rng.randrange(-3, bits + 4)))
        elif r < 0.7:
            be = max(0, min(emx, F.bias + rng.randrange(-3, p + 3)))
        else:
            be = rng.randrange(emx + 1)
        fr = rng.choice([0, 1, fmask, 1 << (fb - 1), rng.getrandbits(fb), rng.getrandbits(fb),
                         rng.getrandbits(fb) & ~((1 << rng.randrange(fb)) - 1)])
        add(F.pat(1 if rng.random() < 0.2 else 0, be, fr))
    return sorted(P)


# ---------------------------------------------------------------- Uint values
def uint_values(rng, F, bits, n_random):
    """values in [0, 2^bits) interesting for conversion to the format F"""
    if bits == 0:
        return [0]
    m = 1 << bits
    p = F.p
    V = set([0, 1 % m, m - 1, m // 2, (m // 2 - 1) % m, (m - 2) % m])

    def add(v):
        if 0 <= v < m:
            V.add(v)

    for k in (p - 1, p, p + 1, 63, 64, 65, F.emax - 1, F.emax, F.emax + 1, bits - 1):
        if 0 <= k <= bits:
            for d in (-1, 0, 1):
                add((1 << k) + d)
    # mantissa + tail around the midpoint
    lens = set([p + 1, p + 2, p + 3, 63, 64, 65, 66, 64 + p, 127, 128, 129, bits, bits - 1, F.emax, F.emax - 1])
    for _ in range(4):
        lens.add(rng.randrange(p + 1, max(p + 2, bits + 1)))
    for ln in lens:
        if ln <= p or ln > bits:
            continue
        s = ln - p
        half = 1 << (s - 1)
        for q in ((1 << (p - 1)), (1 << p) - 1, (1 << p) - 2,
                  (1 << (p - 1)) | rng.getrandbits(p - 1) | 1,
                  ((1 << (p - 1)) | rng.getrandbits(p - 1)) & ~1):
            tails = [0, 1, half - 1, half, half + 1, (1 << s) - 1, rng.getrandbits(s)]
            if ln > 64:
                low = ln - 64                     # bits below the top 64
                # tail whose top-64 part is exactly the midpoint / just below, with low bits set
                tails += [half + 1, half + (1 << low) - 1, half + rng.getrandbits(low),
                          half - (1 << low), half - 1, half - (1 << low) + 1,
                          half + (1 << low), (1 << low) - 1, 1 << low]
            for t in tails:
                if 0 <= t < (1 << s):
                    add((q << s) + t)
    # +inf threshold
    if bits > F.emax - 1:
        thr = (1 << F.emax) - (1 << (F.emax - p - 1))
        for d in (-2, -1, 0, 1, 2):
            add(thr + d)
        add((1 << F.emax) - (1 << (F.emax - p)))           # MAX finite
        add((1 << F.emax) - (1 << (F.emax - p)) + 1)
        add((1 << F.emax) - (1 << (F.emax - p)) - 1)
        add(thr - (1 << (F.emax - 64)))
        add(thr - (1 << (F.emax - 64)) + 1)
        add(thr - (1 << (F.emax - 65)))
        add((1 << F.emax) - 1)
        add(1 << F.emax)
        add((1 << F.emax) + 1)
    for _ in range(n_random):
        add(C.rand_value(rng, bits))
        k = rng.randrange(bits + 1)
        add(rng.getrandbits(k) if k else 0)
    return sorted(V)


def value_pairs(rng, F, bits, vals, n):
    m = 1 << bits
    out = []
    if bits == 0:
        return [(0, 0)]
    for _ in range(n):
        a = rng.choice(vals)
        r = rng.random()
        if r < 0.35:
            b = (a + 1) % m
        elif r < 0.45:
            b = a
        elif r < 0.6:
            b = (a + rng.choice([2, 3, 1 << rng.randrange(bits)])) % m
        elif r < 0.8:
            # stay within the same top bits, vary the tail
            k = a.bit_length()
            s = max(0, k - F.p - rng.randrange(0, 3))
            b = ((a >> s) << s) + (rng.getrandbits(s) if s else 0)
        else:
            b = rng.choice(vals)
        if rng.random() < 0.5:
            a, b = b, a
        out.append((a, b))
    return out


def from_lines(F, bits, pats, rng, all_fns):
    out = []
    for x in pats:
        fns = FROM_FNS if all_fns else ["try_from", rng.choice(FROM_FNS[1:])]
        for f in fns:
            out.append("%s_%s %d Z:%x" % (f, F.name, bits, x))
    return out


def to_lines(F, bits, vals, rng):
    out = []
    for v in vals:
        out.append("to_%s %d Z:%x %s" % (F.name, bits, rng.randrange(2), C.tokU(bits, v)))
    return out


def corpus():
    out = []
    # regression of F10 (fixed): value + 0.5 in floating point
    out.append("try_from_f64 64 Z:4330000000000001")
    for bits in (53, 64, 65, 128):
        if bits in (64, 65, 128):
            for x in (0x4330000000000001, 0x4330000000000003, 0x433fffffffffffff, 0x4330000000000000,
                      0x4330000000000002, 0x3fdfffffffffffff, 0x3fe0000000000000, 0xc330000000000001):
                for f in FROM_FNS:
                    out.append("%s_f64 %d Z:%x" % (f, bits, x))
    # f32 analogue: odd integers in [2^23, 2^24)
    for x in (0x4b000001, 0x4b7fffff, 0x4b000000, 0x3effffff, 0x3f000000, 0xcb000001):
        for f in FROM_FNS:
            out.append("%s_f32 64 Z:%x" % (f, x))
    # widths beyond the float ranges (always part of the run, also in the quick tier)
    import random
    rng = random.Random(18)
    for bits in (1024, 1030, 2048, 4096):
        for F in (F64, F32):
            out += from_lines(F, bits, float_patterns(rng, F, bits, 4)[::3], rng, False)
            vals = uint_values(rng, F, bits, 3)
            out += to_lines(F, bits, vals[::4], rng)
            for (a, b) in value_pairs(rng, F, bits, vals, 6):
                out.append("to_%s_pair %d %s %s" % (F.name, bits, C.tokU(bits, a), C.tokU(bits, b)))
    for bits in (129, 192, 256):
        vals = uint_values(rng, F32, bits, 0)
        out += to_lines(F32, bits, vals[::3], rng)
    return [ln for ln in out if ln not in SUSPECT]


def gen(rng, tier):
    widths = C.WIDTHS_QUICK if tier == "quick" else C.WIDTHS_QUICK + C.WIDTHS_MORE
    quick = tier == "quick"
    out = []
    for bits in widths:
        for F in (F64, F32):
            pats = float_patterns(rng, F, bits, 6 if quick else 60)
            if quick:
                # every entry point sees every width; try_from sees every pattern
                keep = [x for i, x in enumerate(pats) if i % 3 == 0]
                out += from_lines(F, bits, keep, rng, False)
                out += from_lines(F, bits, rng.sample(pats, min(4, len(pats))), rng, True)
            else:
                out += from_lines(F, bits, pats, rng, True)
            vals = uint_values(rng, F, bits, 4 if quick else 40)
            if quick and len(vals) > 40:
                vals2 = rng.sample(vals, 40)
            else:
                vals2 = vals
            out += to_lines(F, bits, vals2, rng)
            for (a, b) in value_pairs(rng, F, bits, vals, 14 if quick else 80):
                out.append("to_%s_pair %d %s %s" % (F.name, bits, C.tokU(bits, a), C.tokU(bits, b)))
    return [ln for ln in out if ln not in SUSPECT]


def nontrivial(line):
    p = line.split()
    if p[1] == "0":
        return False
    toks = p[2:]
    if p[0].startswith("to_"):
        ls = [t for t in toks if t.startswith("L:")]
        return any(x not in ("", "0") for t in ls for x in t[2:].split(","))
    return toks[0] != "Z:0"


def known_class(finding, line):
    return False
