"""C11 — Montgomery multiplication / squaring (mul_redc, square_redc): generator + metadata."""
import random

from . import common as C

PID = "C11"
BIN = "c11"
RUNMOD = "RunC11"
LEVEL = "proof"
RULE = ("odd moduli with top limb at/around the carry thresholds 2^62-1 and 2^63-1 (and mask-limited "
        "variants at widths not a multiple of 64), m = 2^BITS-1, B^N-1, 1, 3, moduli with zero top limbs, "
        "random odd moduli; a, b in {0,1,2,m-1,m-2,m/2,random<m}; inv = -m^-1 mod 2^64; plus directed "
        "operands selected with a Python re-implementation of the loops so that the extra carry bit, "
        "carry_outer=2, subtraction taken/not taken all occur; plus ~8% calls violating one debug-asserted "
        "requirement (wrong inv, a>=m, b>=m, even m, m=0); Uint::mul_redc/square_redc at every harness "
        "width, algorithms::{mul_redc,square_redc}::<N> for N=0..16 (bits=64N); non-trivial = BITS>0, "
        "m>1 and a>1; distinct = distinct case lines")
TRUSTED = ["Coq 8.16.1 kernel + vm_compute",
           "hand-written Gallina model coq/Model/{Base,Word,Add,Redc}.v",
           "correspondence harness harness/src/bin/c11.rs + vlib (python) translation of tokens",
           "rustc/LLVM u64/u128 semantics"]
ASSUMPTIONS = ["u64/u128 wrapping_mul, wrapping_add, overflowing_add, shifts modelled as Z arithmetic mod 2^64 / 2^128",
               "all array arguments of one call have the same length N (Rust typing of [u64; N])"]
EXPLANATION = ("Theorem C11_holds: for every well-typed call, spec call (run call) = true: when inv*m[0] = -1 mod 2^64, "
               "a<m, b<m the model returns N in-range limbs r with r<m and r*2^(64N) = a*b (mod m), no assert fires; "
               "proved for all N and all inputs via the exact row invariant acc*B^i = a*(b mod B^i) + K*m, K<B^i "
               "(squaring: acc*B^i = L(2a-L) + K*m with L = a mod B^i); when a requirement fails the model "
               "answers DebugPanic. The correspondence run evaluates model and spec on the crate's real outputs "
               "(debug + release) inside coqc")

B = 1 << 64
T63 = (1 << 63) - 1      # mul_redc keeps the carry when modulus[N-1] >= T63
T62 = (1 << 62) - 1      # square_redc keeps carry_outer when modulus[N-1] >= T62

SUSPECT = []


# ---------------------------------------------------------------- python re-implementation
# (only used to *select* interesting inputs; never used to judge results)
def py_mul_redc(a, b, m, inv, n):
    A, Bv, M = C.to_limbs(a, n), C.to_limbs(b, n), C.to_limbs(m, n)
    res = [0] * n
    carry = 0
    flags = set()
    for bj in Bv:
        mm = c1 = c2 = 0
        for i in range(n):
            w = A[i] * bj + res[i] + c1
            v, c1 = w % B, w >> 64
            if i == 0:
                mm = (v * inv) % B
            w = M[i] * mm + v + c2
            v, c2 = w % B, w >> 64
            if i > 0:
                res[i - 1] = v
        w = c1 + c2 + carry
        res[n - 1] = w % B
        nc = w >> 64
        if M[n - 1] >= T63:
            carry = nc
        if nc:
            flags.add("carry")
    v = C.from_limbs(res)
    if carry or v >= m:
        flags.add("sub")
        if carry:
            flags.add("sub_carry")
    else:
        flags.add("nosub")
    if v == m:
        flags.add("eq_m")
    return flags


def py_square_redc(a, m, inv, n):
    A, M = C.to_limbs(a, n), C.to_limbs(m, n)
    res = [0] * n
    co = 0
    flags = set()
    for i in range(n):
        w = A[i] * A[i] + res[i]
        res[i], clo = w % B, w >> 64
        chi = 0
        for j in range(i + 1, n):
            w = 2 * A[i] * A[j] + res[j] + clo + (chi << 64)
            res[j], clo, chi = w % B, (w >> 64) % B, w >> 128
            if chi:
                flags.add("chi")
        mm = (res[0] * inv) % B
        w = mm * M[0] + res[0]
        carry = w >> 64
        for j in range(1, n):
            w = M[j] * mm + res[j] + carry
            res[j - 1], carry = w % B, w >> 64
        w = co + clo + (chi << 64) + carry
        res[n - 1] = w % B
        if M[n - 1] >= T62:
            co = w >> 64
        if w >> 64:
            flags.add("co%d" % (w >> 64))
    v = C.from_limbs(res)
    if co or v >= m:
        flags.add("sub")
        if co:
            flags.add("sub_carry")
    else:
        flags.add("nosub")
    if v == m:
        flags.add("eq_m")
    return flags


# ---------------------------------------------------------------- case construction
def inv_of(m):
    return pow(-m, -1, B) if m % 2 else 1


def line_mul(fn, bits, n, a, b, m, inv):
    return "%s %d %s %s %s Z:%x" % (fn, bits, C.tokL(C.to_limbs(a, n)), C.tokL(C.to_limbs(b, n)),
                                   C.tokL(C.to_limbs(m, n)), inv)


def line_sq(fn, bits, n, a, m, inv):
    return "%s %d %s %s Z:%x" % (fn, bits, C.tokL(C.to_limbs(a, n)), C.tokL(C.to_limbs(m, n)), inv)


def rand_modulus(rng, n, lim):
    """odd modulus in [1, lim), lim <= B^n, boundary biased (top-limb thresholds)."""
    r = rng.random()
    top_w = B ** (n - 1)
    if r < 0.40:
        t = rng.choice([T62 - 1, T62, T62 + 1, T63 - 1, T63, T63 + 1, B - 1, B - 2, (1 << 63) + 1,
                        1 << 62, 1 << 63, 3 << 62, B // 3, B // 3 + 1, B // 3 + 2, 0x5800000000000000,
                        3 << 61, 5 << 61])
        lowk = rng.random()
        if lowk < 0.3:
            low = top_w - 1
        elif lowk < 0.5:
            low = 1
        elif lowk < 0.6:
            low = top_w - 1 - 2 * rng.randrange(4)
        else:
            low = rng.getrandbits(64 * (n - 1)) if n > 1 else 0
        m = t * top_w + low
        if n == 1:
            m = t
    elif r < 0.50:
        m = lim - 1 - 2 * rng.randrange(3)
    elif r < 0.56:
        m = rng.choice([1, 3, 5, 7, B - 1, B + 1])
    elif r < 0.64:
        k = rng.randrange(1, 64 * n + 1)          # zero top limbs / short moduli
        m = rng.getrandbits(k)
    elif r < 0.72:
        m = lim // 2 + rng.choice([-1, 1, 3])
    elif r < 0.86:
        m = C.from_limbs([C.rand_limb(rng) for _ in range(n)])
    else:
        m = rng.getrandbits(64 * n)
    m %= lim
    m |= 1
    if m >= lim:
        m = lim - 1 if (lim - 1) % 2 else 1
    return m


def rand_operand(rng, m, n):
    r = rng.random()
    if r < 0.06:
        v = 0
    elif r < 0.10:
        v = 1
    elif r < 0.30:
        v = m - 1 - rng.randrange(3)
    elif r < 0.36:
        v = m // 2 + rng.randrange(2)
    elif r < 0.50:
        v = m - 1 - rng.getrandbits(rng.randrange(1, 65))
    elif r < 0.70:
        v = C.from_limbs([C.rand_limb(rng) for _ in range(n)])
    else:
        v = rng.randrange(m)
    return v % m


def violate(rng, n, lim, a, b, m, inv):
    """break exactly one documented requirement"""
    k = rng.randrange(5)
    if k == 0:
        inv = (inv + rng.choice([1, 2, B - 1, 1 << 63])) % B
    elif k == 1 and m < lim - 1:
        a = rng.choice([m, m + 1, lim - 1])
    elif k == 2 and m < lim - 1:
        b = rng.choice([m, m + 1, lim - 1])
    elif k == 3:
        m = m - 1                                 # even (or zero) modulus, inv kept
        a, b = a % max(m, 1), b % max(m, 1)
    else:
        inv = rng.getrandbits(64)
    return a % lim, b % lim, m, inv


def directed(rng, n, lim, want_mul, want_sq, tries=40):
    """operands near the top of the range for which the python loops take the wanted path"""
    out = []
    for _ in range(tries):
        m = rand_modulus(rng, n, lim)
        if rng.random() < 0.7:
            m = (lim - 1 - 2 * rng.randrange(1 << rng.randrange(1, 40))) | 1
            if m <= 0 or m >= lim:
                m = lim - 1 if (lim - 1) % 2 else 1
        inv = inv_of(m)
        a, b = rand_operand(rng, m, n), rand_operand(rng, m, n)
        if want_mul and (py_mul_redc(a, b, m, inv, n) & want_mul):
            out.append(("mul", a, b, m, inv))
            want_mul = set()
        if want_sq and (py_square_redc(a, m, inv, n) & want_sq):
            out.append(("sq", a, a, m, inv))
            want_sq = set()
        if not want_mul and not want_sq:
            break
    return out


def zero_product(rng, lim):
    """composite odd m with a*b (resp. a*a) a non-zero multiple of m: the accumulator ends exactly
    at m, so the subtraction must be taken on equality.  Returns (a, b, m) and (a, m) or None."""
    bl = lim.bit_length() - 1
    if bl < 4:
        return None
    kp = rng.randrange(1, bl // 2)
    p = rng.getrandbits(kp) | 1 | (1 << kp)            # odd, > 1
    q = rng.getrandbits(bl - kp - 2) | 1 | (1 << max(bl - kp - 3, 1))
    if q < 3 or p * q >= lim:
        q = 3
    if p * q >= lim:
        return None
    m = p * q
    a, b = p * rng.randrange(1, q), q * rng.randrange(1, p)
    # squaring: m2 = p^2 * q2, a2 = p * q2 * s
    q2 = max(3, q // p) | 1
    m2 = p * p * q2
    sq = None
    if m2 < lim:
        sq = (p * q2 * rng.randrange(1, p), m2)
    return (a, b, m), sq


def carry_at_threshold(rng, n, lim):
    """mul_redc operands that set the extra carry bit with the modulus' top limb exactly at
    2^63 / 2^63+1 (the smallest moduli with 2m > B^N): b[0] = 0, b[1] = B-1 and a[0] = -m[0]
    force the reduction factor of row 1 to B-1, so the accumulator becomes (B-1)(a+m)/B >= B^N.
    Needs N >= 3 (b < m bounds the top limb of b).  Returns (a, b, m) or None."""
    if n < 3 or lim < B ** n:
        return None
    w = B ** (n - 1)
    top = (1 << 63) + rng.randrange(2)
    m = top * w + (w - 1) - 2 * rng.randrange(1 << rng.randrange(1, 30))
    m0 = m % B
    a = m - ((2 * m0 - B) % B)
    if a % B != (B - m0) % B or not (0 <= a < m):
        return None
    mid = [rng.choice([B - 1, B - 2, rng.getrandbits(64)]) for _ in range(n - 3)]
    b = C.from_limbs([0, B - 1] + mid + [rng.choice([top - 1, top - 2, rng.randrange(top)])])
    if b >= m or "carry" not in py_mul_redc(a, b, m, inv_of(m), n):
        return None
    return a, b, m


def cases_for(rng, bits, n, lim, fmul, fsq, reps):
    out = []
    if n == 0:
        out.append(line_mul(fmul, bits, 0, 0, 0, 0, 1))
        out.append(line_sq(fsq, bits, 0, 0, 0, 1))
        out.append(line_mul(fmul, bits, 0, 0, 0, 0, rng.getrandbits(64)))
        return out
    for _ in range(reps):
        m = rand_modulus(rng, n, lim)
        inv = inv_of(m)
        a, b = rand_operand(rng, m, n), rand_operand(rng, m, n)
        if rng.random() < 0.08:
            a, b, m, inv = violate(rng, n, lim, a, b, m, inv)
        out.append(line_mul(fmul, bits, n, a, b, m, inv))
        if rng.random() < 0.5:
            a = rand_operand(rng, max(m, 1), n)
        out.append(line_sq(fsq, bits, n, a, m, inv))
    for _ in range(2):
        z = zero_product(rng, lim)
        if z:
            (a, b, m), sq = z
            out.append(line_mul(fmul, bits, n, a, b, m, inv_of(m)))
            if sq:
                out.append(line_sq(fsq, bits, n, sq[0], sq[1], inv_of(sq[1])))
    for _ in range(3):
        z = carry_at_threshold(rng, n, lim)
        if z:
            out.append(line_mul(fmul, bits, n, z[0], z[1], z[2], inv_of(z[2])))
    for (k, a, b, m, inv) in directed(rng, n, lim, {"carry"}, {"co2", "chi"}) + \
            directed(rng, n, lim, {"eq_m"}, {"sub_carry"}, 10):
        if k == "mul":
            out.append(line_mul(fmul, bits, n, a, b, m, inv))
        else:
            out.append(line_sq(fsq, bits, n, a, m, inv))
    return out


def corpus():
    out = []
    # boundary corpus: the thresholds exactly, with the largest operands
    for n in (1, 2, 3, 4, 8, 16):
        w = B ** (n - 1)
        for t in ((T62 - 1, T62, T62 + 1, T63 - 1, T63, T63 + 1, B - 1) if n <= 4 else (T62, T63, B - 1)):
            m = (t * w + (w - 1)) | 1
            inv = inv_of(m)
            pairs = ((m - 1, m - 1), (m - 2, m - 1), (m // 2, m // 2 + 1), (1, m - 1))
            for (a, b) in (pairs if n <= 4 else pairs[:1]):
                out.append(line_mul("alg_mul_redc", 64 * n, n, a, b, m, inv))
                out.append(line_sq("alg_square_redc", 64 * n, n, a, m, inv))
                out.append(line_mul("mul_redc", 64 * n, n, a, b, m, inv))
                out.append(line_sq("square_redc", 64 * n, n, a, m, inv))
    # widths whose MASK equals a threshold (63, 127, 255: 2^63-1; 190: 2^62-1) with m = MAX
    for bits in (63, 127, 255, 190, 65, 250, 1, 2, 3):
        n = C.nlimbs(bits)
        m = (1 << bits) - 1
        inv = inv_of(m)
        for (a, b) in ((m - 1, m - 1), (m - 2, m - 1), (m // 2, m // 2 + 1)):
            out.append(line_mul("mul_redc", bits, n, a % m, b % m, m, inv))
            out.append(line_sq("square_redc", bits, n, a % m, m, inv))
    # the doc example of Uint::mul_redc
    m = 21888242871839275222246405745257275088548364400416034343698204186575808495617
    out.append(line_mul("mul_redc", 256, 4, 5, 6, m, 0xc2e1f593efffffff))
    out.append(line_sq("square_redc", 256, 4, 5, m, 0xc2e1f593efffffff))
    # BITS = 0 / N = 0
    out.append("mul_redc 0 L: L: L: Z:0")
    out.append("square_redc 0 L: L: Z:ffffffffffffffff")
    out.append("alg_mul_redc 0 L: L: L: Z:1")
    out.append("alg_square_redc 0 L: L: Z:1")
    random.Random(11).shuffle(out)      # balance the coqc shards
    return [ln for ln in out if ln not in SUSPECT]


def gen(rng, tier):
    quick = tier == "quick"
    widths = C.WIDTHS_QUICK if quick else C.WIDTHS_QUICK + C.WIDTHS_MORE
    out = []
    for bits in widths:
        n = C.nlimbs(bits)
        reps = (32 if bits <= 320 else 10) if quick else (120 if bits <= 1030 else 12)
        if bits == 0:
            out += ["mul_redc 0 L: L: L: Z:%x" % rng.getrandbits(64),
                    "square_redc 0 L: L: Z:%x" % rng.getrandbits(64)]
            continue
        out += cases_for(rng, bits, n, 1 << bits, "mul_redc", "square_redc", reps)
    for n in range(0, 17):
        reps = (30 if n <= 6 else (8 if n <= 9 else 4)) if quick else (150 if n <= 8 else 40)
        out += cases_for(rng, 64 * n, n, B ** n, "alg_mul_redc", "alg_square_redc", reps)
    rng.shuffle(out)          # balance the coqc shards (large widths are slow to evaluate)
    return [ln for ln in out if ln not in SUSPECT]


def nontrivial(line):
    p = line.split()
    if p[1] == "0":
        return False
    toks = [t for t in p[2:] if t.startswith("L:")]
    val = lambda t: C.from_limbs([int(x, 16) for x in t[2:].split(",") if x])
    return val(toks[-1]) > 1 and val(toks[0]) > 1


def known_class(finding, line):
    return False
