"""C16, part A — serde (serde_json, bincode), rlp, alloy-rlp, fastrlp 0.3/0.4: encoders, length()
and decode-after-encode round trips. Part module (no property metadata)."""
from . import common as C

BIN = "c16a"
RUNMOD = "RunC16A"
FEATURES = ["codecs_a"]

SUSPECT = []

FNS = ["rlp_encode", "rlp_roundtrip", "bits_rlp_encode", "bits_rlp_roundtrip",
       "alloy_rlp_encode", "alloy_rlp_length", "alloy_rlp_roundtrip",
       "fastrlp03_encode", "fastrlp03_length", "fastrlp03_roundtrip",
       "fastrlp04_encode", "fastrlp04_length", "fastrlp04_roundtrip",
       "serde_json_ser", "serde_json_roundtrip", "bits_serde_json_ser", "bits_serde_json_roundtrip",
       "bincode_ser", "bincode_roundtrip", "bits_bincode_ser", "bits_bincode_roundtrip"]


def boundary_values(bits):
    """values at the mode boundaries of the formats, clipped to the width"""
    m = 1 << bits
    vs = {0, 1, 0x7f, 0x80, 0x81, 0xff, 0x100, m - 1, m >> 1, (m >> 1) - 1 if m > 1 else 0}
    for k in (1, 2, 3, 4, 7, 8, 9, 15, 16, 17, 24, 31, 32, 33, 54, 55, 56, 57, 63, 64, 65, 66):
        vs.add((1 << (8 * k)) - 1)
        vs.add(1 << (8 * k))
        vs.add((1 << (8 * k)) + 1)
        vs.add(1 << (8 * k - 1))
    for k in (7, 8, 63, 64, 65, 127, 128, 129, 439, 440, 441, 447, 448):
        vs.add(1 << k)
        vs.add((1 << k) - 1)
    return sorted(v for v in vs if 0 <= v < m)


def small_in_wide(rng, bits):
    """a value with few significant bytes in a wide type"""
    if bits == 0:
        return 0
    k = rng.randrange(0, min(bits, 72) + 1)
    if k == 0:
        return 0
    return (rng.getrandbits(k) | (1 << (k - 1))) % (1 << bits)


def line(f, bits, v):
    return "%s %d %s" % (f, bits, C.tokU(bits, v))


def corpus():
    out = []
    # upstream's literals and the per-format limits
    for v in (0, 15, 1024, 0x12345678, 0x7f, 0x80):
        for f in FNS:
            out.append(line(f, 256, v))
    for f in FNS:
        out.append(line(f, 0, 0))
        for bits in (512, 536):
            for v in ((1 << 440) - 1, 1 << 440, (1 << 448) - 1, 1 << 448, (1 << bits) - 1):
                out.append(line(f, bits, v))
    return [ln for ln in out if ln not in SUSPECT]


def gen(rng, tier):
    widths = list(C.WIDTHS_QUICK) + (list(C.WIDTHS_MORE) if tier == "thorough" else [])
    reps = 3 if tier == "quick" else 12
    nb = 6 if tier == "quick" else 40
    out = []
    for bits in widths:
        bv = boundary_values(bits)
        for f in FNS:
            vs = set()
            if len(bv) <= nb:
                vs.update(bv)
            else:
                vs.update(rng.sample(bv, nb))
            vs.add(0)
            vs.add((1 << bits) - 1)
            for _ in range(reps):
                vs.add(small_in_wide(rng, bits))
                vs.add(C.rand_value(rng, bits))
            for v in sorted(vs):
                out.append(line(f, bits, v))
    return [ln for ln in out if ln not in SUSPECT]


def nontrivial(ln):
    p = ln.split()
    return p[1] != "0" and any(x not in ("0", "") for x in p[2][2:].split(","))


def known_class(finding, ln):
    return False
