"""C15 — limb-slice kernels: case generator and metadata."""
from . import common as C

PID = "C15"
BIN = "c15"
RUNMOD = "RunC15"
LEVEL = "proof"
RULE = ("independent slice lengths 0..10 (accumulator, a, b), limbs from the boundary alphabet with zero "
        "limbs forced at either end / in the middle, all-ones operands, accumulators shorter than the "
        "product; non-trivial = some operand has a limb outside {0,1}; distinct = distinct case lines")
TRUSTED = ["Coq 8.16.1 kernel + vm_compute", "hand-written Gallina model coq/Model/{Word,Limbs,Add}.v",
           "correspondence harness harness/src/bin/c15.rs + vlib token translation", "rustc u64/u128 semantics"]
ASSUMPTIONS = ["u128 arithmetic of the kernels modelled as exact Z arithmetic (no u128 overflow is possible)",
               "slice lengths fit usize"]
EXPLANATION = ("Theorem C15_holds: forall wf call, spec call (run call) = true: every kernel returns the exact "
               "low limbs and carry/borrow/flag of the integer result, for all slice lengths and contents")


def shaped(rng, n):
    """limb list of length n with structured zeros"""
    l = C.rand_limbs(rng, n)
    r = rng.random()
    if n and r < 0.15:
        k = rng.randrange(n + 1)
        l[:k] = [0] * k                       # zero low limbs
    elif n and r < 0.30:
        k = rng.randrange(n + 1)
        l[n - k:] = [0] * k                   # zero high limbs
    elif n and r < 0.40:
        l[rng.randrange(n)] = 0               # zero in the middle
    elif r < 0.50:
        l = [C.B64 - 1] * n                   # all ones
    elif r < 0.55:
        l = [0] * n
    return l


def corpus():
    out = []
    F = C.B64 - 1
    out.append("shift_left_small 0 L:1 Z:0")          # F14 regression (amount 0)
    out.append("shift_right_small 0 L:1 Z:0")
    out.append("shift_left_small 0 %s Z:0" % C.tokL([F, F]))
    out.append("shift_right_small 0 %s Z:0" % C.tokL([F, F]))
    out.append("addmul 0 L: L:1 L:1")                 # empty accumulator, non-zero product
    out.append("addmul 0 L:0 L:0,1 L:0,1")            # trimmed product beyond the window
    out.append("addmul 0 %s %s %s" % (C.tokL([F, F]), C.tokL([F, F]), C.tokL([F, F])))
    out.append("addmul 0 %s %s %s" % (C.tokL([F, F, F, F]), C.tokL([F, F]), C.tokL([F, F])))
    out.append("submul_nx1 0 %s %s Z:%x" % (C.tokL([0, 0]), C.tokL([F, F]), F))
    out.append("sbb_n 0 L:0 L:0 Z:%x" % F)
    out.append("adc_n 0 %s %s Z:%x" % (C.tokL([F, F]), C.tokL([F, F]), F))
    # the accumulator runs out exactly at a row whose multiplier limb is zero (interior zero of the
    # shorter operand): must report overflow, must not index past the window
    for L_ in range(0, 6):
        for extra in (1, 2, 3):
            b = [3] * L_ + [0] * extra + [5]
            for la in (len(b), len(b) + 2):
                a = [7] * la
                out.append("addmul 0 %s %s %s" % (C.tokL([9] * L_), C.tokL(a), C.tokL(b)))
                out.append("addmul 0 %s %s %s" % (C.tokL([F] * L_), C.tokL(b), C.tokL(a)))
                out.append("addmul 0 %s %s %s" % (C.tokL([1] * (L_ + 1)), C.tokL(a), C.tokL(b)))
    out.append("adc_n 0 L:1,2 L:1 Z:0")               # rhs shorter: panics
    out.append("addmul_n 0 L:1,2 L:1 L:1,2")          # length mismatch: panics
    return out


def gen(rng, tier):
    reps = 14 if tier == "quick" else 200
    out = []
    for _ in range(reps):
        for nl in range(0, 11):
            na, nb = rng.randrange(0, 11), rng.randrange(0, 11)
            out.append("addmul 0 %s %s %s" % (C.tokL(shaped(rng, nl)), C.tokL(shaped(rng, na)), C.tokL(shaped(rng, nb))))
            out.append("addmul_n 0 %s %s %s" % (C.tokL(shaped(rng, nl)), C.tokL(shaped(rng, nl)), C.tokL(shaped(rng, nl))))
            out.append("mul_nx1 0 %s %s" % (C.tokL(shaped(rng, nl)), C.tokZ(C.rand_limb(rng))))
            out.append("addmul_nx1 0 %s %s %s" % (C.tokL(shaped(rng, nl)), C.tokL(shaped(rng, nl)), C.tokZ(C.rand_limb(rng))))
            out.append("submul_nx1 0 %s %s %s" % (C.tokL(shaped(rng, nl)), C.tokL(shaped(rng, nl)), C.tokZ(C.rand_limb(rng))))
            out.append("add_nx1 0 %s %s" % (C.tokL(shaped(rng, nl)), C.tokZ(C.rand_limb(rng))))
            extra = rng.choice([0, 0, 0, 1, 3])
            cin = rng.choice([0, 1, 1, C.rand_limb(rng)])
            out.append("adc_n 0 %s %s %s" % (C.tokL(shaped(rng, nl)), C.tokL(shaped(rng, nl + extra)), C.tokZ(cin)))
            out.append("sbb_n 0 %s %s %s" % (C.tokL(shaped(rng, nl)), C.tokL(shaped(rng, nl + extra)), C.tokZ(cin)))
            s = rng.choice([0, 1, 63, 32, rng.randrange(64)])
            out.append("shift_left_small 0 %s %s" % (C.tokL(shaped(rng, nl)), C.tokZ(s)))
            out.append("shift_right_small 0 %s %s" % (C.tokL(shaped(rng, nl)), C.tokZ(s)))
            l = shaped(rng, nl)
            r = list(l)
            if nl and rng.random() < 0.7:
                i = rng.randrange(nl)
                r[i] = (r[i] + rng.choice([-1, 1])) % C.B64
            out.append("cmp 0 %s %s" % (C.tokL(l), C.tokL(r)))
        out.append("cmp 0 %s %s" % (C.tokL(shaped(rng, rng.randrange(6))), C.tokL(shaped(rng, rng.randrange(6)))))
        for f in ("adc", "sbb"):
            out.append("%s 0 %s %s %s" % (f, C.tokZ(C.rand_limb(rng)), C.tokZ(C.rand_limb(rng)), C.tokZ(rng.choice([0, 1, C.rand_limb(rng)]))))
        for f in ("carrying_add", "borrowing_sub"):
            out.append("%s 0 %s %s B:%d" % (f, C.tokZ(C.rand_limb(rng)), C.tokZ(C.rand_limb(rng)), rng.randrange(2)))
    # length-mismatch panics
    out.append("addmul_n 0 L:1,2,3 L:1,2 L:1,2,3")
    out.append("adc_n 0 L:1,2,3 L:1,2 Z:0")
    out.append("sbb_n 0 L:1,2,3 L: Z:0")
    return out


def nontrivial(line):
    p = line.split()
    return any(t[0] in "LZ" and any(x not in ("", "0", "1") for x in t.split(":")[1].split(",")) for t in p[2:])


def known_class(finding, line):
    return False
