"""C06 — bitwise logic, bit access, bit counting: case generator and metadata."""
from . import common as C

PID = "C06"
BIN = "c06"
RUNMOD = "RunC06"
LEVEL = "proof"
RULE = ("values biased to the binary structure (0, MAX, single bits at 0, limb boundaries 64k-1/64k/64k+1 "
        "and BITS-1, 2^k-1, MAX<<k, low-ones/high-ones runs, top limb zero, powers of two +-1, boundary "
        "limb alphabet, uniform) at every harness width x every entry point (3 not shapes, 6 shapes of "
        "each of & | ^, all accessors/counters); indices 0, limb/byte boundaries, BITS-1, BITS, BYTES-1, "
        "BYTES, BITS+63, BITS+64, 2^63, 2^64-1 and uniform in [0, BITS+64]; a case is non-trivial when "
        "BITS>0 and some operand is not 0/1; distinct = distinct case lines")
TRUSTED = ["Coq 8.16.1 kernel + vm_compute",
           "hand-written Gallina model coq/Model/{Base,Word,Bits}.v",
           "correspondence harness harness/src/bin/c06.rs + vlib (python) translation of tokens",
           "rustc/LLVM u64 semantics (leading_zeros, trailing_zeros, trailing_ones, count_ones, "
           "reverse_bits, shifts, little-endian memory layout of [u64; N])"]
ASSUMPTIONS = ["u64 bit primitives modelled by Word.clz64/ctz64/popcnt64/bitrev64 (Z.testbit "
               "characterisations proved in PfBits)",
               "usize additions (n*64 + k, bit_len + 7) do not overflow: BITS + 64 < 2^64",
               "little-endian target (byte() uses as_le_slice)",
               "Iterator::position/rposition modelled functionally",
               "the two shifts used inside (>>= in reverse_bits, ONE << exp in "
               "checked_next_power_of_two) are faithful local copies of overflowing_shr/shl"]
EXPLANATION = ("Theorem C06_holds: forall wf call, spec call (run call) = true, proved for all BITS>=0, "
               "all canonical operands and all usize indices by induction over the limb lists with "
               "Z.testbit characterisations; the correspondence run evaluates model and spec on the "
               "implementation's actual outputs inside coqc")

SUSPECT = []

UNARY = ["reverse_bits", "leading_zeros", "leading_ones", "trailing_zeros", "trailing_ones",
         "count_ones", "count_zeros", "bit_len", "byte_len", "most_significant_bits",
         "is_power_of_two", "checked_next_power_of_two", "next_power_of_two"]
BINOPS = ["op_and", "op_or", "op_xor"]


def special_values(bits):
    """Deterministic structural values of a width."""
    if bits == 0:
        return [0]
    m = 1 << bits
    vs = {0, m - 1, 1 % m, m >> 1, (m >> 1) - 1, (m >> 1) + 1 if bits > 1 else 0, m - 2}
    for k in range(0, bits + 1, 64):
        for d in (-1, 0, 1):
            e = k + d
            if 0 <= e < bits:
                vs.add(1 << e)                    # single bit at a limb boundary
                vs.add((1 << e) - 1)              # low ones up to the boundary
                vs.add((m - 1) ^ ((1 << e) - 1))  # high ones down to the boundary
                vs.add((m - 1) ^ (1 << e))        # MAX with one hole
    n = C.nlimbs(bits)
    if n > 1:
        low = (1 << (64 * (n - 1))) - 1
        vs.add(low)                               # top limb zero, rest MAX
        vs.add(1 << (64 * (n - 1) - 1))           # top limb zero, highest bit below
        vs.add(((m - 1) >> (64 * (n - 1))) << (64 * (n - 1)))   # only the top limb, = MASK
    return sorted(v % m for v in vs)


def rand_val(rng, bits):
    if bits == 0:
        return 0
    m = 1 << bits
    r = rng.random()
    if r < 0.25:
        return rng.choice(special_values(bits))
    if r < 0.35:
        k = rng.randrange(bits + 1)               # trailing ones run then a hole then noise
        return ((rng.getrandbits(bits) << (k + 1)) | ((1 << k) - 1)) % m
    if r < 0.45:
        k = rng.randrange(bits + 1)               # trailing zeros run
        return ((rng.getrandbits(bits) | 1) << k) % m
    if r < 0.55:
        k = rng.randrange(bits + 1)               # leading zeros run
        return rng.getrandbits(bits) >> k
    if r < 0.65:
        k = rng.randrange(bits + 1)               # leading ones run
        return (m - 1) ^ (rng.getrandbits(bits) >> k)
    if r < 0.72:
        return (1 << rng.randrange(bits)) % m     # power of two
    if r < 0.78:
        return ((1 << rng.randrange(bits)) + rng.choice([-1, 1])) % m
    return C.rand_value(rng, bits)


def indices(rng, bits, n):
    nb = (bits + 7) // 8
    fixed = [0, 1, 7, 8, 63, 64, 65, bits - 1, bits, bits + 1, nb - 1, nb, nb + 1, 8 * nb,
             bits + 63, bits + 64, (1 << 63), (1 << 64) - 1]
    fixed += [64 * k + d for k in range(1, C.nlimbs(bits) + 1) for d in (-1, 0)]
    fixed = [i for i in fixed if i >= 0]
    out = []
    for _ in range(n):
        r = rng.random()
        if r < 0.5:
            out.append(rng.choice(fixed))
        else:
            out.append(rng.randrange(bits + 65))
    return out


def L(bits, v):
    return C.tokU(bits, v)


def corpus():
    out = []
    for bits in (0, 1, 2, 63, 64, 65, 127, 128, 129, 192, 250, 256, 257):
        m = 1 << bits
        for v in special_values(bits):
            for f in UNARY:
                out.append("%s %d %s" % (f, bits, L(bits, v)))
            out.append("op_not %d Z:0 %s" % (bits, L(bits, v)))
        # every index of every byte / the bits around each limb boundary, on a patterned value
        pat = int("0123456789abcdef" * (bits // 64 + 1), 16) % m
        for i in range((bits + 7) // 8 + 2):
            out.append("byte %d %s Z:%x" % (bits, L(bits, pat), i))
            out.append("checked_byte %d %s Z:%x" % (bits, L(bits, pat), i))
        for i in sorted(set([0, 1, bits - 1, bits, bits + 1, bits + 64] +
                            [64 * k + d for k in range(1, 6) for d in (-1, 0, 1)])):
            if i < 0:
                continue
            for v in (pat, 0, m - 1):
                out.append("bit %d %s Z:%x" % (bits, L(bits, v), i))
                for b in (0, 1):
                    out.append("set_bit %d %s Z:%x B:%d" % (bits, L(bits, v), i, b))
        for sh in range(6):
            for f in BINOPS:
                out.append("%s %d Z:%x %s %s" % (f, bits, sh, L(bits, pat), L(bits, (m - 1) ^ (pat >> 1))))
    return [ln for ln in out if ln not in SUSPECT]


def gen(rng, tier):
    widths = C.WIDTHS_QUICK if tier == "quick" else C.WIDTHS_QUICK + C.WIDTHS_MORE
    reps = 3 if tier == "quick" else 30
    out = []
    for bits in widths:
        for _ in range(reps):
            for f in UNARY:
                out.append("%s %d %s" % (f, bits, L(bits, rand_val(rng, bits))))
        for sh in range(3):
            out.append("op_not %d Z:%x %s" % (bits, sh, L(bits, rand_val(rng, bits))))
        for sh in range(6):
            for f in BINOPS:
                a, b = rand_val(rng, bits), rand_val(rng, bits)
                if rng.random() < 0.15:
                    b = ((1 << bits) - 1) ^ a
                out.append("%s %d Z:%x %s %s" % (f, bits, sh, L(bits, a), L(bits, b)))
        for i in indices(rng, bits, 2 * reps + 4):
            v = rand_val(rng, bits)
            out.append("bit %d %s Z:%x" % (bits, L(bits, v), i))
            out.append("set_bit %d %s Z:%x B:%d" % (bits, L(bits, v), i, rng.randrange(2)))
            if rng.random() < 0.5 and i < bits:
                # a write that must change the value
                out.append("set_bit %d %s Z:%x B:%d" % (bits, L(bits, v), i, 1 - ((v >> i) & 1)))
        for i in indices(rng, bits, 2 * reps + 4):
            v = rand_val(rng, bits)
            j = i // 8 if rng.random() < 0.7 else i
            out.append("byte %d %s Z:%x" % (bits, L(bits, v), j))
            out.append("checked_byte %d %s Z:%x" % (bits, L(bits, v), j))
    return [ln for ln in out if ln not in SUSPECT]


def nontrivial(line):
    p = line.split()
    if p[1] == "0":
        return False
    return any(t.startswith("L") and any(x not in ("", "0", "1") for x in t.split(":")[1].split(","))
               for t in p[2:])


def known_class(finding, line):
    return False
