"""C01 — add/sub/neg: case generator and metadata."""
from . import common as C

PID = "C01"
BIN = "c01"
RUNMOD = "RunC01"
LEVEL = "proof"
RULE = ("boundary-biased operands (limb alphabet 0,1,2,2^31,2^32-1,2^32,2^63-1,2^63,2^63+1,2^64-2,"
        "2^64-1, single bits, 2^k-1, 2^k+-1, MAX-k, uniform) at every harness width x every add/sub/neg "
        "entry point; a case is non-trivial when BITS>0 and some operand is not 0/1; distinct = "
        "distinct case lines")
TRUSTED = ["Coq 8.16.1 kernel + vm_compute", "hand-written Gallina model coq/Model/{Base,Word,Add}.v",
           "correspondence harness harness/src/bin/c01.rs + vlib (python) translation of tokens",
           "rustc/LLVM u64 semantics"]
ASSUMPTIONS = ["u64 overflowing_add/sub modelled as Z arithmetic mod 2^64",
               "BITS + 63 does not overflow usize"]
EXPLANATION = ("Theorem C01_holds: forall wf call, spec call (run call) = true, proved for all BITS>=0 and all "
               "canonical operands by induction over the limb lists; the correspondence run evaluates "
               "model and spec on the implementation's actual outputs inside coqc")

BIN2 = ["overflowing_add", "overflowing_sub", "checked_add", "checked_sub", "saturating_add",
        "saturating_sub", "wrapping_add", "wrapping_sub", "abs_diff"]
UN = ["overflowing_neg", "checked_neg", "wrapping_neg"]


def corpus():
    out = ["wrapping_add 7 L:5 L:3", "op_add 7 Z:0 L:5 L:3"]
    # boundary corpus: the carry must cross every limb; MAX+1; a=b; b=0
    for bits in (0, 1, 2, 63, 64, 65, 127, 128, 129, 250, 256):
        m = 1 << bits
        for (x, y) in ((m - 1, 1 % m), (m - 1, m - 1), (0, 0), (0, 1 % m), (m // 2, m // 2),
                       ((m - 1) // 3, m - 1 - (m - 1) // 3)):
            for f in ("overflowing_add", "overflowing_sub", "abs_diff", "saturating_sub",
                      "saturating_add", "checked_add"):
                out.append("%s %d %s %s" % (f, bits, C.tokU(bits, x), C.tokU(bits, y)))
        out.append("overflowing_neg %d %s" % (bits, C.tokU(bits, 0)))
        out.append("overflowing_neg %d %s" % (bits, C.tokU(bits, m - 1)))
    return out


def pair(rng, bits):
    a = C.rand_value(rng, bits)
    r = rng.random()
    m = 1 << bits
    if r < 0.1:
        b = a
    elif r < 0.2:
        b = (m - a) % m            # a + b = 2^bits exactly
    elif r < 0.3:
        b = (m - 1 - a) % m        # a + b = MAX
    elif r < 0.4:
        b = (a + rng.choice([-1, 1])) % m
    else:
        b = C.rand_value(rng, bits)
    return a, b


def gen(rng, tier):
    widths = C.WIDTHS_QUICK if tier == "quick" else C.WIDTHS_QUICK + C.WIDTHS_MORE
    reps = 6 if tier == "quick" else 60
    out = []
    for bits in widths:
        for _ in range(reps):
            for f in BIN2:
                a, b = pair(rng, bits)
                out.append("%s %d %s %s" % (f, bits, C.tokU(bits, a), C.tokU(bits, b)))
            for f in UN:
                out.append("%s %d %s" % (f, bits, C.tokU(bits, C.rand_value(rng, bits))))
        for shape in range(6):
            for f in ("op_add", "op_sub"):
                a, b = pair(rng, bits)
                out.append("%s %d Z:%x %s %s" % (f, bits, shape, C.tokU(bits, a), C.tokU(bits, b)))
        for shape in range(2):
            out.append("op_neg %d Z:%x %s" % (bits, shape, C.tokU(bits, C.rand_value(rng, bits))))
            for n in (0, 1, 2, 5):
                xs = [C.to_limbs(C.rand_value(rng, bits), C.nlimbs(bits)) for _ in range(n)]
                out.append("sum %d Z:%x %s" % (bits, shape, C.tokLL(xs)))
    return out


def nontrivial(line):
    p = line.split()
    if p[1] == "0":
        return False
    return any(t.startswith("L") and any(x not in ("", "0", "1") for x in t.split(":")[1].replace(";", ",").split(","))
               for t in p[2:])


def known_class(finding, line):
    return False
