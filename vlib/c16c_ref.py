"""Group C (num-bigint, primitive-types, bytemuck, postgres, ark-ff): input builders shared by the
part modules p_c16c / p_c17c.  These only *construct inputs* (valid wire encodings to mutate, boundary
values); expected results come from the Coq spec, never from here."""
from . import common as C

(BOOL, INT2, INT4, OID, INT8, FLOAT4, FLOAT8, MONEY, BYTEA, BIT, VARBIT, CHAR, TEXT, VARCHAR, JSON, JSONB,
 NUMERIC, TIMESTAMP, UUID) = range(19)
ALL_TYPES = list(range(19))
POD_WIDTHS = [64 * k for k in range(1, 17)]
PT_WIDTHS = [128, 256, 512]
PTH_WIDTHS = [128, 160, 256, 512]
ARK03_WIDTHS = [64, 128, 256, 320, 384, 448, 768, 832]
FIELDS = {0: (1, (1 << 61) - 1),
          1: (4, 21888242871839275222246405745257275088696311157297823662689037894645226208583),
          2: (6, 0x1a0111ea397fe69a4b1ba7b6434bacd764774b84f38512bf6730d2a0f6b0f6241eabfffeb153ffffb9feffffffffaaab)}
ARK03_FIELDS = [(64, 0), (256, 1), (384, 2)]
MONEY_MAX = ((1 << 63) - 1) // 100


def nbytes(bits):
    return (bits + 7) // 8


def be(v, n):
    return list((v % (1 << (8 * n))).to_bytes(n, "big")) if n > 0 else []


def digits_be(v, b):
    out = []
    while v > 0:
        out.append(v % b)
        v //= b
    return out[::-1]


def numeric(nd, weight, sign, dscale, digits):
    out = be(nd, 2) + be(weight, 2) + be(sign, 2) + be(dscale, 2)
    for d in digits:
        out += be(d, 2)
    return out


def pg_encode(bits, ty, v):
    """a wire encoding of v for column type ty (input builder; None when there is none)"""
    if ty == BOOL:
        return [v] if v <= 1 else None
    if ty == INT2:
        return be(v, 2) if v < (1 << 15) else None
    if ty == INT4:
        return be(v, 4) if v < (1 << 31) else None
    if ty == OID:
        return be(v, 4) if v < (1 << 32) else None
    if ty == INT8:
        return be(v, 8) if v < (1 << 63) else None
    if ty == MONEY:
        return be(100 * v, 8) if v <= MONEY_MAX else None
    if ty in (FLOAT4, FLOAT8):
        import struct
        try:
            return list(struct.pack(">f" if ty == FLOAT4 else ">d", float(v)))
        except (OverflowError, struct.error):
            return None
    if ty == BYTEA:
        return be(v, nbytes(bits))
    if ty in (BIT, VARBIT):
        n = nbytes(bits)
        return be(bits, 4) + be(v << (8 * n - bits), n)
    if ty in (CHAR, TEXT, VARCHAR):
        return list(("0x%x" % v).encode())
    if ty == JSON:
        return list(('"0x%x"' % v).encode())
    if ty == JSONB:
        return [1] + list(('"0x%x"' % v).encode())
    if ty == NUMERIC:
        ds = digits_be(v, 10000)
        w = max(len(ds) - 1, 0)
        while ds and ds[-1] == 0:
            ds.pop()
        return numeric(len(ds), w, 0, 0, ds)
    return None


def boundary_values(bits):
    """values at the boundaries of every column type, clipped to the width"""
    m = 1 << bits
    vs = {0, 1, 2, m - 1, m - 2, m >> 1, (m >> 1) - 1}
    for k in (15, 16, 31, 32, 63, 64):
        vs |= {(1 << k) - 2, (1 << k) - 1, 1 << k, (1 << k) + 1}
    vs |= {MONEY_MAX - 1, MONEY_MAX, MONEY_MAX + 1}
    for k in (1, 2, 3, 5, 10, 20, 40):
        p = 10000 ** k
        vs |= {p - 1, p, p + 1, 9999 * p, p * 10000 - 1, 123 * p * p}
    for k in (24, 25, 53, 54):            # float mantissa boundaries
        vs |= {(1 << k) - 1, (1 << k) + 1}
    return sorted(v for v in vs if 0 <= v < m)


def values(rng, bits, n):
    """n values: boundaries of the column types + boundary-biased random"""
    bv = boundary_values(bits)
    out = []
    for _ in range(n):
        r = rng.random()
        if r < 0.55 and bv:
            out.append(rng.choice(bv))
        elif r < 0.7 and bits > 0:
            out.append(rng.getrandbits(rng.randrange(1, min(bits, 70) + 1)))
        else:
            out.append(C.rand_value(rng, bits))
    return out


def nontrivial(line):
    p = line.split()
    if p[1] == "0":
        return False
    for t in p[2:]:
        if t.startswith("L:") and any(x not in ("", "0") for x in t[2:].split(",")):
            return True
        if t.startswith("Y:") and t[2:].strip("0") != "":
            return True
    if p[0] == "bigint_from":
        return p[3] not in ("Z:0",)
    return False
