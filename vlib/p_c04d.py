"""C04 part (d) — ill-formed (BITS, LIMBS) pairs: source scanner, generated table, probe programs.

RUNNER = "custom".  A case `ctor <bits> Z:<limbs> Z:<ctor id> Z:<variant>` is the program

    fn main() { let _x = <constructor expression at ruint::Uint<bits, limbs>>; println!("VALUE") }

compiled against the working tree named in harness/Cargo.toml and run.  Observable outcome:
`CE` (rustc rejects the program), `P` (it panics), `S` (it prints VALUE: a value was obtained).
One bin per case (rustc reports an erroneous constant once per crate, so a compile error can be
attributed only with one program per crate target); `cargo build --bins --keep-going`.

On every run (import time of run_cases / gen) the table of `Self::LIMBS` mentions is rebuilt from
/repo/src by vlib/c04_scan.py and written to coq/Model/CtorTable.v; Run/RunC04d.v and
Properties/C04.v import it, so model and theorem follow what the source says now."""
import hashlib
import os
import re
import shutil
import subprocess

from . import common as C
from . import c04_scan
from .p_c04 import LEVEL, RULE, TRUSTED, ASSUMPTIONS, EXPLANATION  # `./check c04d` stand-alone

PID = "C04"
BIN = "c04d"
RUNNER = "custom"
RUNMOD = "RunC04d"

# F15 (fixed, commit 1a14c90): with feature `bytemuck`, `<Uint<B, L> as bytemuck::Zeroable>::zeroed()`
# used to be a safe call yielding a value of an ill-formed type (blanket `unsafe impl Zeroable`
# with the provided `zeroed`); the impl now overrides `zeroed() = Self::ZERO`.
ZEROED = 51
ILL = [(64, 2), (65, 1), (0, 1), (64, 0), (1, 0), (128, 1), (127, 3)]
WELL = [(0, 0), (1, 1), (64, 1), (65, 2), (127, 2), (128, 2)]
SUSPECT = []

PROBE = os.path.join(C.BUILD, "probe_c04d")

# id, Coq constructor, (file, item name, header substring or None), [expression variants]
# {T} = ruint::Uint<B, L>, {BT} = ruint::Bits<B, L>, {B} {L} {NB} = bytes, {S} = a well-formed source value
CTORS = [
    (0, "C_ZERO", ("lib.rs", "ZERO", None), ["<{T}>::ZERO"]),
    (1, "C_ONE", ("lib.rs", "ONE", None), ["<{T}>::ONE"]),
    (2, "C_MIN", ("lib.rs", "MIN", None), ["<{T}>::MIN"]),
    (3, "C_MAX", ("lib.rs", "MAX", None), ["<{T}>::MAX"]),
    (4, "C_default", ("lib.rs", "default", None), ["<{T} as Default>::default()"]),
    (5, "C_from_limbs", ("lib.rs", "from_limbs", None), ["<{T}>::from_limbs([0u64; {L}])", "<{T}>::from_limbs([1u64; {L}])"]),
    (6, "C_from_limbs_slice", ("lib.rs", "from_limbs_slice", None), ["<{T}>::from_limbs_slice(&[])", "<{T}>::from_limbs_slice(&[1u64])"]),
    (7, "C_checked_from_limbs_slice", ("lib.rs", "checked_from_limbs_slice", None),
     ["<{T}>::checked_from_limbs_slice(&[]).unwrap()", "<{T}>::checked_from_limbs_slice(&[1u64]).unwrap()"]),
    (8, "C_wrapping_from_limbs_slice", ("lib.rs", "wrapping_from_limbs_slice", None),
     ["<{T}>::wrapping_from_limbs_slice(&[])", "<{T}>::wrapping_from_limbs_slice(&[u64::MAX, u64::MAX, 7])"]),
    (9, "C_overflowing_from_limbs_slice", ("lib.rs", "overflowing_from_limbs_slice", None),
     ["<{T}>::overflowing_from_limbs_slice(&[]).0", "<{T}>::overflowing_from_limbs_slice(&[u64::MAX, u64::MAX, 7]).0"]),
    (10, "C_saturating_from_limbs_slice", ("lib.rs", "saturating_from_limbs_slice", None),
     ["<{T}>::saturating_from_limbs_slice(&[])", "<{T}>::saturating_from_limbs_slice(&[u64::MAX, u64::MAX, 7])"]),
    (11, "C_from", ("from.rs", "from", r"> Uint<BITS, LIMBS>$"), ["<{T}>::from(0u64)", "<{T}>::from(1u8)"]),
    (12, "C_saturating_from", ("from.rs", "saturating_from", None), ["<{T}>::saturating_from(0u64)", "<{T}>::saturating_from(u128::MAX)"]),
    (13, "C_wrapping_from", ("from.rs", "wrapping_from", None), ["<{T}>::wrapping_from(0u64)", "<{T}>::wrapping_from(-1i32)"]),
    (14, "C_try_from_u64", ("from.rs", "try_from", "TryFrom<u64>"), ["anyval(<{T} as TryFrom<u64>>::try_from(0u64))", "anyval(<{T} as TryFrom<u64>>::try_from(u64::MAX))"]),
    (15, "C_try_from_u128", ("from.rs", "try_from", "TryFrom<u128>"), ["anyval(<{T} as TryFrom<u128>>::try_from(0u128))", "anyval(<{T} as TryFrom<u128>>::try_from(u128::MAX))"]),
    (16, "C_try_from_uint_prim", ("from.rs", "try_from", "TryFrom<$uint>"), ["anyval(<{T} as TryFrom<u8>>::try_from(0u8))", "anyval(<{T} as TryFrom<usize>>::try_from(usize::MAX))"]),
    (17, "C_try_from_int_prim", ("from.rs", "try_from", "TryFrom<$int>"), ["anyval(<{T} as TryFrom<i64>>::try_from(0i64))", "anyval(<{T} as TryFrom<i8>>::try_from(-1i8))"]),
    (18, "C_try_from_f64", ("from.rs", "try_from", "TryFrom<f64>"), ["anyval(<{T} as TryFrom<f64>>::try_from(0.0f64))", "anyval(<{T} as TryFrom<f64>>::try_from(-1.0e30f64))"]),
    (19, "C_try_from_f32", ("from.rs", "try_from", "TryFrom<f32>"), ["anyval(<{T} as TryFrom<f32>>::try_from(0.0f32))", "anyval(<{T} as TryFrom<f32>>::try_from(3.0e38f32))"]),
    (20, "C_from_uint", ("from.rs", "from_uint", None), ["<{T}>::from_uint({S})"]),
    (21, "C_checked_from_uint", ("from.rs", "checked_from_uint", None), ["<{T}>::checked_from_uint({S}).unwrap()"]),
    (22, "C_uint_try_from_uint", ("from.rs", "uint_try_from", "BITS_SRC"),
     ["anyval(<{T} as ruint::UintTryFrom<ruint::Uint<8, 1>>>::uint_try_from({S}))", "<{T}>::wrapping_from(ruint::Uint::<8, 1>::MAX)"]),
    (23, "C_uint_try_to_uint", ("from.rs", "uint_try_to", "BITS_DST"),
     ["{S}.to::<{T}>()", "ruint::Uint::<8, 1>::MAX.wrapping_to::<{T}>()", "ruint::Uint::<8, 1>::MAX.saturating_to::<{T}>()"]),
    (24, "C_try_from_be_slice", ("bytes.rs", "try_from_be_slice", None), ["<{T}>::try_from_be_slice(&[]).unwrap()", "<{T}>::try_from_be_slice(&[1u8]).unwrap()"]),
    (25, "C_try_from_le_slice", ("bytes.rs", "try_from_le_slice", None), ["<{T}>::try_from_le_slice(&[]).unwrap()", "<{T}>::try_from_le_slice(&[1u8]).unwrap()"]),
    (26, "C_from_be_slice", ("bytes.rs", "from_be_slice", None), ["<{T}>::from_be_slice(&[])"]),
    (27, "C_from_le_slice", ("bytes.rs", "from_le_slice", None), ["<{T}>::from_le_slice(&[])"]),
    (28, "C_from_be_bytes", ("bytes.rs", "from_be_bytes", None), ["<{T}>::from_be_bytes::<{NB}>([0u8; {NB}])"]),
    (29, "C_from_le_bytes", ("bytes.rs", "from_le_bytes", None), ["<{T}>::from_le_bytes::<{NB}>([0u8; {NB}])"]),
    (30, "C_from_base_le", ("base_convert.rs", "from_base_le", None), ["<{T}>::from_base_le(10, [0u64]).unwrap()", "<{T}>::from_base_le(10, []).unwrap()"]),
    (31, "C_from_base_be", ("base_convert.rs", "from_base_be", None), ["<{T}>::from_base_be(10, [0u64]).unwrap()", "<{T}>::from_base_be(10, []).unwrap()"]),
    (32, "C_from_str_radix", ("string.rs", "from_str_radix", None), ["<{T}>::from_str_radix(\"0\", 10).unwrap()", "<{T}>::from_str_radix(\"\", 64).unwrap()"]),
    (33, "C_from_str", ("string.rs", "from_str", None), ["<{T} as core::str::FromStr>::from_str(\"0\").unwrap()", "\"0x0\".parse::<{T}>().unwrap()"]),
    (34, "C_sum", ("add.rs", "sum", None), ["core::iter::empty::<{T}>().sum::<{T}>()", "core::iter::empty::<&{T}>().sum::<{T}>()"]),
    (35, "C_product", ("mul.rs", "product", None), ["core::iter::empty::<{T}>().product::<{T}>()", "core::iter::empty::<&{T}>().product::<{T}>()"]),
    (36, "C_widening_mul", ("mul.rs", "widening_mul", None), ["{WM}"]),
    (37, "C_approx_pow2", ("pow.rs", "approx_pow2", None), ["<{T}>::approx_pow2(-100.0).unwrap()", "<{T}>::approx_pow2(0.0).unwrap()"]),
    (38, "C_Bits_ZERO", ("bit_arr.rs", "ZERO", None), ["<{BT}>::ZERO"]),
    (39, "C_Bits_default", ("bit_arr.rs", "#derive-default", None), ["<{BT} as Default>::default()"]),
    (40, "C_Bits_from_limbs", ("bit_arr.rs", "from_limbs", None), ["<{BT}>::from_limbs([0u64; {L}])"]),
    (41, "C_Bits_from_str", ("bit_arr.rs", "from_str", None), ["<{BT} as core::str::FromStr>::from_str(\"0\").unwrap()"]),
    (42, "C_Bits_from_str_radix", ("bit_arr.rs", "from_str_radix", None), ["<{BT}>::from_str_radix(\"0\", 10).unwrap()"]),
    (43, "C_Bits_try_from_be_slice", ("bit_arr.rs", "try_from_be_slice", None), ["<{BT}>::try_from_be_slice(&[]).unwrap()"]),
    (44, "C_Bits_from_le_bytes", ("bit_arr.rs", "from_le_bytes", None), ["<{BT}>::from_le_bytes::<{NB}>([0u8; {NB}])"]),
    (45, "C_rand08_sample", ("support/rand.rs", "sample", None),
     ["{{ use rand_08::Rng; rand_08::rngs::mock::StepRng::new(0, 1).gen::<{T}>() }}",
      "rand_08::distributions::Distribution::<{T}>::sample(&rand_08::distributions::Standard, &mut rand_08::rngs::mock::StepRng::new(7, 1))"]),
    (46, "C_rand09_random_with", ("support/rand_09.rs", "random_with", None), ["<{T}>::random_with(&mut rand_09::rng())"]),
    (47, "C_rand09_random", ("support/rand_09.rs", "random", None), ["<{T}>::random()"]),
    (48, "C_rand09_sample", ("support/rand_09.rs", "sample", None), ["{{ use rand_09::Rng; rand_09::rng().random::<{T}>() }}"]),
    (49, "C_arbitrary", ("support/arbitrary.rs", "arbitrary", None),
     ["<{T} as arbitrary::Arbitrary>::arbitrary(&mut arbitrary::Unstructured::new(&[])).unwrap()"]),
    (50, "C_proptest", ("support/proptest.rs", "arbitrary_with", "for Uint"),
     ["{{ use proptest::strategy::{{Strategy, ValueTree}}; proptest::arbitrary::any::<{T}>().new_tree(&mut proptest::test_runner::TestRunner::deterministic()).unwrap().current() }}",
      "{{ use proptest::strategy::{{Strategy, ValueTree}}; proptest::arbitrary::any::<{BT}>().new_tree(&mut proptest::test_runner::TestRunner::deterministic()).unwrap().current() }}"]),
    (ZEROED, "C_bytemuck_zeroed", ("support/bytemuck.rs", "zeroed", None), ["<{T} as bytemuck::Zeroable>::zeroed()"]),
    (52, "C_quickcheck", ("support/quickcheck.rs", "arbitrary", None),
     ["<{T} as quickcheck::Arbitrary>::arbitrary(&mut quickcheck::Gen::new(10))"]),
]
CT = {c[0]: c for c in CTORS}

PRELUDE = r'''#![allow(warnings)]
fn anyval<T>(r: Result<T, ruint::ToUintError<T>>) -> T {
    match r {
        Ok(n) => n,
        Err(ruint::ToUintError::ValueTooLarge(_, n) | ruint::ToUintError::ValueNegative(_, n)) => n,
        Err(_) => panic!("no value"),
    }
}
'''


# ------------------------------------------------------------------ table from the source
def ruint_path():
    txt = open(os.path.join(C.HARNESS, "Cargo.toml")).read()
    m = re.search(r'ruint\s*=\s*\{[^}]*path\s*=\s*"([^"]+)"', txt)
    return m.group(1) if m else C.REPO


def build_table(repo=None):
    """(rows, problems): rows = [(id, coq name, mentions, runtime_check, why)]"""
    repo = repo or ruint_path()
    items = c04_scan.scan(repo)
    rows, problems = [], []
    for cid, cname, (file, name, hdr), _ in CTORS:
        if name.startswith("#"):
            # no item in the crate's source: a derive / a blanket unsafe impl of a foreign trait
            if name == "#derive-default":
                # #[derive(Default)] on `struct Bits(Uint)`: Default::default of the field
                src = [it for it in items if it.file == "lib.rs" and it.name == "default"]
                ok = bool(src) and all(it.mentions for it in src)
                rows.append((cid, cname, ok, False, "derive(Default) -> Uint::default"))
            continue
        cands = [it for it in items if it.file == file and it.name == name and (hdr is None or re.search(hdr if hdr.endswith('$') else re.escape(hdr), it.header))]
        if not cands and cname == "C_bytemuck_zeroed":
            txt = open(os.path.join(repo, "src", file)).read() if os.path.exists(os.path.join(repo, "src", file)) else ""
            if re.search(r"unsafe\s+impl\s*<[^>]*>\s*Zeroable\s+for\s+Uint", txt):
                # blanket impl without an own `zeroed`: the provided method of the foreign trait
                # (mem::zeroed) is used; nothing in the crate is mentioned (this was defect F15)
                rows.append((cid, cname, False, False, "provided method bytemuck::Zeroable::zeroed; no body in the crate"))
                continue
        if not cands:
            problems.append("%s: no item %s in src/%s" % (cname, name, file))
            rows.append((cid, cname, False, False, "NOT FOUND"))
            continue
        rows.append((cid, cname, all(it.mentions for it in cands), any(it.runtime_check for it in cands),
                     "; ".join("%s:%d via %s" % (it.file, it.line, it.why) for it in cands)))
    # constants of the two types that are not in the list (a new public constant would be a new constructor)
    listed = {(c[2][0], c[2][1]) for c in CTORS}
    for it in items:
        if it.kind == "const" and it.target in ("Uint", "Bits") and it.name.isupper() \
                and it.name not in ("LIMBS", "MASK", "SHOULD_MASK", "BITS", "BYTES") and (it.file, it.name) not in listed:
            problems.append("unlisted constant %s in src/%s" % (it.name, it.file))
    return rows, problems


def write_table(rows):
    lines = ["(* Model/CtorTable.v — GENERATED on every run of part (d) by vlib/p_c04d.py (scanner vlib/c04_scan.py)",
             "   from the crate source: does the constructor's body, transitively through the constants and",
             "   functions it uses, mention `Self::LIMBS`?  Do not edit. *)",
             "From RV.Model Require Import Base Ctor.", "",
             "Definition mentions_limbs (c : ctor) : bool :=", "  match c with"]
    for cid, cname, m, rc, why in rows:
        lines.append("  | %s => %s   (* %s *)" % (cname, "true" if m else "false", why.replace("(*", "( *").replace("*)", "* )")))
    lines += ["  end.", "", "(* the body checks LIMBS against nlimbs(BITS) at run time (assert) *)",
              "Definition runtime_check (c : ctor) : bool :=", "  match c with"]
    for cid, cname, m, rc, why in rows:
        lines.append("  | %s => %s" % (cname, "true" if rc else "false"))
    lines += ["  end.", ""]
    txt = "\n".join(lines)
    path = os.path.join(C.COQ, "Model", "CtorTable.v")
    old = open(path).read() if os.path.exists(path) else None
    if old != txt:
        with open(path, "w") as f:
            f.write(txt)
    return path


_TABLE = None


def table():
    global _TABLE
    if _TABLE is None:
        rows, problems = build_table()
        write_table(rows)
        _TABLE = (rows, problems)
    return _TABLE


table()          # regenerate on import: ./check compiles Run/RunC04d.v before it asks for cases


# ------------------------------------------------------------------ probe crate
def expr_of(cid, b, l, variant):
    vs = CT[cid][3]
    e = vs[variant % len(vs)]
    lb = b // 2
    rb = b - lb
    wm = ("ruint::Uint::<%d, %d>::ZERO.widening_mul::<%d, %d, %d, %d>(ruint::Uint::<%d, %d>::ZERO)"
          % (lb, C.nlimbs(lb), rb, C.nlimbs(rb), b, l, rb, C.nlimbs(rb)))
    return e.format(T="ruint::Uint<%d, %d>" % (b, l), BT="ruint::Bits<%d, %d>" % (b, l), B=b, L=l,
                    NB=(b + 7) // 8, S="ruint::Uint::<8, 1>::ZERO", WM=wm)


def parse_case(line):
    p = line.split()
    return int(p[1]), int(p[2][2:], 16), int(p[3][2:], 16), int(p[4][2:], 16)


def write_crate(progs):
    shutil.rmtree(os.path.join(PROBE, "src"), ignore_errors=True)
    os.makedirs(os.path.join(PROBE, "src", "bin"))
    with open(os.path.join(PROBE, "Cargo.toml"), "w") as f:
        f.write('[package]\nname = "probe_c04d"\nversion = "0.0.0"\nedition = "2021"\npublish = false\nautobins = true\n\n'
                '[workspace]\n\n[dependencies]\n'
                'ruint = { path = "%s", default-features = false, features = ["std", "rand", "rand-09", '
                '"arbitrary", "proptest", "quickcheck", "bytemuck"] }\n'
                'rand-08 = { version = "0.8", package = "rand" }\nrand-09 = { version = "0.9", package = "rand" }\n'
                'arbitrary = "1"\nproptest = "1"\nquickcheck = "1"\nbytemuck = "1.13.1"\n\n'
                '[profile.dev]\nopt-level = 0\ndebug = false\nincremental = false\n\n'
                '[profile.release]\nopt-level = 1\ndebug = false\ndebug-assertions = false\n'
                'overflow-checks = false\ncodegen-units = 16\nincremental = false\n' % ruint_path())
    lock = os.path.join(C.HARNESS, "Cargo.lock")
    if not os.path.exists(lock):
        lock = os.path.join(C.REPO, "Cargo.lock")
    shutil.copy(lock, os.path.join(PROBE, "Cargo.lock"))
    for name, expr in progs:
        with open(os.path.join(PROBE, "src", "bin", name + ".rs"), "w") as f:
            f.write(PRELUDE + "fn main() {\n    std::panic::set_hook(Box::new(|_| {}));\n"
                    "    let _x = %s;\n    std::hint::black_box(&_x);\n    println!(\"VALUE\");\n}\n" % expr)


_MEMO = {}


def run_cases(lines, profile="debug"):
    key = (profile, hashlib.sha1("\n".join(lines).encode()).hexdigest())
    if key not in _MEMO:
        _MEMO[key] = _run_cases(lines, profile)
    return list(_MEMO[key])


def _run_cases(lines, profile):
    rows, problems = table()
    if problems:
        return ["X scanner: " + "; ".join(problems)[:300]] * len(lines)
    cases = [parse_case(ln) for ln in lines]
    progs, names = [], []
    for i, (b, l, cid, var) in enumerate(cases):
        if cid not in CT:
            names.append(None)
            continue
        name = "p%d_%d_%d_%d" % (cid, b, l, var)
        names.append(name)
        progs.append((name, expr_of(cid, b, l, var)))
    progs = sorted(set(progs))
    write_crate(progs)
    env = dict(os.environ)
    env.update({"RUSTFLAGS": "--cfg recmo_uint_verif -Awarnings", "CARGO_TARGET_DIR": C.TARGET,
                "CARGO_NET_OFFLINE": "true"})
    cmd = ["cargo", "build", "--offline", "--bins", "--keep-going", "-j16"]
    if profile == "release":
        cmd.append("--release")
    outdir = os.path.join(C.TARGET, profile)
    for name, _ in progs:
        try:
            os.remove(os.path.join(outdir, name))
        except OSError:
            pass
    p = subprocess.run(cmd, cwd=PROBE, env=env, stdout=subprocess.PIPE, stderr=subprocess.STDOUT, text=True)
    log = p.stdout
    # which bins failed, and why: only the well-formedness assert counts as the expected rejection
    failed = set(re.findall(r'could not compile `probe_c04d` \(bin "(\w+)"\)', log))
    if "error: failed to" in log or "error: no matching package" in log or "failed to select a version" in log:
        return ["X probe crate: " + log[-300:].replace("\n", " ")] * len(lines)
    other_errors = [m for m in re.findall(r"^error(?:\[E\d+\])?: (.*)$", log, flags=re.M)
                    if not m.startswith("could not compile") and "incorrect LIMBS" not in m]
    res = []
    for (b, l, cid, var), name in zip(cases, names):
        if name is None:
            res.append("X unknown constructor id")
            continue
        exe = os.path.join(outdir, name)
        if name in failed or not os.path.exists(exe):
            if name not in failed:
                res.append("X probe not built and not reported: " + log[-200:].replace("\n", " "))
            elif other_errors:
                # some program failed for another reason than the LIMBS assert: find out whether it is this one
                res.append(classify_single(name, profile, env))
            else:
                res.append("CE")
            continue
        q = subprocess.run([exe], stdout=subprocess.PIPE, stderr=subprocess.PIPE, text=True)
        if q.returncode == 0 and q.stdout.strip() == "VALUE":
            res.append("S")
        elif q.returncode == 101:
            res.append("P")
        else:
            res.append("X probe exit %d" % q.returncode)
    return res


def classify_single(name, profile, env):
    cmd = ["cargo", "build", "--offline", "--bin", name] + (["--release"] if profile == "release" else [])
    p = subprocess.run(cmd, cwd=PROBE, env=env, stdout=subprocess.PIPE, stderr=subprocess.STDOUT, text=True)
    errs = [m for m in re.findall(r"^error(?:\[E\d+\])?: (.*)$", p.stdout, flags=re.M) if not m.startswith("could not compile")]
    if errs and all("incorrect LIMBS" in m for m in errs):
        return "CE"
    return "X probe does not compile: " + "; ".join(errs)[:200]


# ------------------------------------------------------------------ cases
def corpus():
    out = []
    # F9 (fixed): MAX at ill-formed pairs; F15 (fixed): bytemuck::Zeroable::zeroed
    for (b, l) in ILL:
        out.append("ctor %d Z:%x Z:3 Z:0" % (b, l))
        out.append("ctor %d Z:%x Z:%x Z:0" % (b, l, ZEROED))
    return [x for x in out if x not in SUSPECT]


def gen(rng, tier):
    out = []
    for cid, cname, root, exprs in CTORS:
        for (b, l) in ILL:
            for v in range(len(exprs) if tier != "quick" else min(len(exprs), 2)):
                if tier == "quick" and v == 1 and (b, l) not in ((64, 2), (65, 1), (64, 0)):
                    continue
                out.append("ctor %d Z:%x Z:%x Z:%x" % (b, l, cid, v))
        wells = WELL if tier != "quick" else [(64, 1), (65, 2), (0, 0)]
        for (b, l) in wells:
            out.append("ctor %d Z:%x Z:%x Z:0" % (b, l, cid))
    if tier != "quick":
        for (b, l) in [(256, 3), (256, 5), (63, 2), (4096, 63), (1, 2), (2, 0)]:
            for cid, cname, root, exprs in CTORS:
                out.append("ctor %d Z:%x Z:%x Z:0" % (b, l, cid))
    return [x for x in out if x not in SUSPECT]


def nontrivial(line):
    b, l, cid, var = parse_case(line)
    return l != C.nlimbs(b)


def known_class(finding, line):
    return False


if __name__ == "__main__":
    rows, problems = build_table()
    for r in rows:
        print(r)
    print(problems)
