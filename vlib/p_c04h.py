"""C04 part (h) — further producers of Uint values: div_rem, div_ceil, (checked_)next_multiple_of.
The cases, the harness bin, the Run module (model, spec, theorem) are those of CC03, restricted to
the listed entry points: their specifications compare the raw result limbs with the canonical limbs
of the integer result, so a non-canonical value is a violation here as well."""
from . import common as C
from . import p_c03 as _m
from .p_c04 import LEVEL, RULE, TRUSTED, ASSUMPTIONS, EXPLANATION  # noqa: F401

PID = "C04"
BIN = _m.BIN
RUNMOD = _m.RUNMOD
FEATURES = getattr(_m, "FEATURES", None)
FNS = ['div_rem', 'div_ceil', 'checked_next_multiple_of', 'next_multiple_of']
NO_ADAPT = True       # the owning property's check widens its own search when its sources change
BUDGET = 1500          # generated cases kept per run (the owning property runs them all)


def _keep(lines):
    return [ln for ln in lines if ln.split()[0] in FNS]


def corpus():
    return _keep(_m.corpus())


def gen(rng, tier):
    out = _keep(_m.gen(rng, tier))
    if tier == "quick" and len(out) > BUDGET:
        rng.shuffle(out)
        out = out[:BUDGET]
    return out


def nontrivial(line):
    return _m.nontrivial(line)


def known_class(finding, line):
    return False


if hasattr(_m, "prepare"):
    def prepare(lines, *a, **k):
        return _m.prepare(lines, *a, **k)
