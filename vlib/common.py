"""Shared driver code for ./check: gates, Coq build, harness build/run, corpus
evaluation in coqc (vm_compute), classification, replay and evidence files."""
import hashlib
import json
import os
import random
import re
import shutil
import subprocess
import sys
import time
from concurrent.futures import ThreadPoolExecutor

VERIF = os.path.dirname(os.path.dirname(os.path.abspath(__file__)))
REPO = "/repo"
try:   # the crate under test is wherever the harness's path dependency points (normally /repo)
    _m = re.search(r'ruint\s*=\s*\{\s*path\s*=\s*"([^"]+)"', open(os.path.join(VERIF, "harness", "Cargo.toml")).read())
    if _m:
        REPO = _m.group(1)
except OSError:
    pass
COQ = os.path.join(VERIF, "coq")
BUILD = os.path.join(VERIF, "_build")
TARGET = os.path.join(BUILD, "target")
HARNESS = os.path.join(VERIF, "harness")
B64 = 1 << 64
CHUNK_TIMEOUT = 150     # seconds for one harness process over its share of the cases
LINE_TIMEOUT = 10       # seconds for a single call when a chunk died or hung

WIDTHS_QUICK = [0, 1, 2, 3, 7, 8, 9, 31, 60, 63, 64, 65, 66, 127, 128, 129, 192, 250,
                255, 256, 257, 320, 512, 536]
WIDTHS_MORE = [5, 16, 33, 96, 130, 190, 384, 520, 1024, 1030, 2048, 4096]

ALLOWED_AXIOMS = set()   # names allowed under Print Assumptions (none needed so far)

GATE_RE = re.compile(
    r"\b(Admitted|admit|Axiom|Axioms|Parameter|Parameters|Conjecture|Conjectures|"
    r"Admit Obligations|bypass_check|Unset Guard Checking|Unset Positivity Checking|"
    r"Unset Universe Checking|type-in-type|impredicative-set)\b")


def nlimbs(bits):
    return (bits + 63) // 64


def mask(bits):
    if bits == 0:
        return 0
    b = bits % 64
    return B64 - 1 if b == 0 else (1 << b) - 1


def to_limbs(v, n):
    return [(v >> (64 * i)) & (B64 - 1) for i in range(n)]


def from_limbs(l):
    return sum(x << (64 * i) for i, x in enumerate(l))


def tokL(l):
    return "L:" + ",".join("%x" % x for x in l)


def tokU(bits, v):
    return tokL(to_limbs(v, nlimbs(bits)))


def tokZ(z):
    return "Z:%x" % z


def tokLL(ls):
    return "LL:" + "".join(",".join("%x" % x for x in l) + ";" for l in ls)


def tokY(bs):
    return "Y:" + "".join("%02x" % b for b in bs)


# ---------------------------------------------------------------- value generators
LIMB_ALPHABET = [0, 1, 2, 1 << 31, (1 << 32) - 1, 1 << 32, (1 << 63) - 1, 1 << 63,
                 (1 << 63) + 1, B64 - 2, B64 - 1]


def rand_limb(rng):
    r = rng.random()
    if r < 0.55:
        return rng.choice(LIMB_ALPHABET)
    if r < 0.7:
        return 1 << rng.randrange(64)
    if r < 0.8:
        return (1 << rng.randrange(1, 65)) - 1
    return rng.getrandbits(64)


def rand_value(rng, bits):
    """Boundary-biased value in [0, 2^bits)."""
    if bits == 0:
        return 0
    m = 1 << bits
    r = rng.random()
    if r < 0.08:
        return 0
    if r < 0.16:
        return m - 1
    if r < 0.22:
        return 1
    if r < 0.30:
        return (1 << rng.randrange(bits)) % m
    if r < 0.38:
        return ((1 << rng.randrange(bits + 1)) - 1) % m
    if r < 0.44:
        return (m - 1 - rng.randrange(3)) % m
    if r < 0.50:
        k = rng.randrange(bits + 1)
        return ((1 << k) + rng.choice([-1, 1])) % m
    if r < 0.60:
        # sparse: whole limbs zero at the low end, the high end and in the middle at once (kernels
        # that trim or skip zero limbs take different paths for each combination)
        n = nlimbs(bits)
        return from_limbs([0 if rng.random() < 0.5 else rand_limb(rng) for _ in range(n)]) % m
    if r < 0.85:
        n = nlimbs(bits)
        return from_limbs([rand_limb(rng) for _ in range(n)]) % m
    return rng.getrandbits(bits)


def rand_limbs(rng, n):
    return [rand_limb(rng) for _ in range(n)]


# ---------------------------------------------------------------- translation to Coq
def coq_z(x):
    return "0x%x" % x if x >= 0 else "(-0x%x)" % (-x)


def coq_list(xs):
    return "[" + ";".join(xs) + "]"


def tok_to_coq_arg(t):
    """argument token -> Gallina term"""
    if t.startswith("LL:"):
        s = t[3:]
        if s == "":
            return "[]"
        return coq_list([coq_list(["0x" + x for x in p.split(",")] if p else []) for p in s.split(";")[:-1]])
    if t.startswith("L:"):
        s = t[2:]
        return coq_list(["0x" + x for x in s.split(",")] if s else [])
    if t.startswith("Z:"):
        s = t[2:]
        return "(-0x%s)" % s[1:] if s.startswith("-") else "0x" + s
    if t.startswith("B:"):
        return "true" if t[2:] == "1" else "false"
    if t.startswith("Y:"):
        s = t[2:]
        return coq_list(["0x" + s[i:i + 2] for i in range(0, len(s), 2)])
    raise ValueError("bad token " + t)


def tok_to_coq_res(t):
    """result token -> Gallina term of type tok"""
    if t == "N":
        return "TNone"
    if t == "S":
        return "TSome"
    if t.startswith("E:"):
        return "TErr 0x" + t[2:]
    if t.startswith("L:"):
        return "TL " + tok_to_coq_arg(t)
    if t.startswith("Z:"):
        return "TZ " + tok_to_coq_arg(t)
    if t.startswith("B:"):
        return "TB " + tok_to_coq_arg(t)
    if t.startswith("Y:"):
        return "TY " + tok_to_coq_arg(t)
    raise ValueError("bad result token " + t)


def line_to_call(line):
    p = line.split()
    return "(%s %s)" % (p[0], " ".join([p[1]] + [tok_to_coq_arg(t) for t in p[2:]]))


def res_to_coq(line):
    line = line.strip()
    if line == "P":
        return "Panic"
    if line == "CE":
        return "CompileError"
    if line == "T":
        return "OutOfFuel"       # the implementation did not terminate (harness timeout)
    return "(Val %s)" % coq_list([tok_to_coq_res(t) for t in line.split()])


# ---------------------------------------------------------------- processes
def sh(cmd, cwd=None, timeout=None, env=None, inp=None):
    e = dict(os.environ)
    e["CARGO_NET_OFFLINE"] = "true"
    if env:
        e.update(env)
    p = subprocess.run(cmd, cwd=cwd, timeout=timeout, env=e, input=inp,
                       stdout=subprocess.PIPE, stderr=subprocess.STDOUT, text=True,
                       shell=isinstance(cmd, str))
    return p.returncode, p.stdout


def gate():
    """Textual gate over the Coq development. Returns list of offending lines."""
    bad = []
    for root, _, files in os.walk(COQ):
        for f in files:
            if not f.endswith(".v"):
                continue
            path = os.path.join(root, f)
            txt = open(path).read()
            # strip comments (non-nested is enough: the development avoids nested comments)
            code = re.sub(r"\(\*.*?\*\)", " ", txt, flags=re.S)
            for m in GATE_RE.finditer(code):
                bad.append("%s: %s" % (os.path.relpath(path, VERIF), m.group(0)))
            # Variable/Hypothesis outside a section
            depth = 0
            for ln in code.splitlines():
                s = ln.strip()
                if re.match(r"Section\b", s):
                    depth += 1
                elif re.match(r"End\b", s) and depth > 0:
                    depth -= 1
                elif depth == 0 and re.match(r"(Variables?|Hypothes[ie]s|Context)\b", s):
                    bad.append("%s: %s outside section" % (os.path.relpath(path, VERIF), s[:40]))
    return bad


def ensure_makefile():
    rc, out = sh(["sh", os.path.join(COQ, "mkproject.sh")], cwd=COQ)
    if rc != 0:
        raise RuntimeError("mkproject failed: " + out)


STALE_RE = re.compile(r"inconsistent assumptions|is corrupted|bad magic|Bad magic|compiled library|"
                      r"End_of_file|input_value|truncated object|No rule to make target", re.I)


def coq_clean():
    """Remove every compiled Coq artefact (a partially written or stale .vo is not evidence of
    anything about the property; the files are rebuilt from the sources)."""
    for root, _, files in os.walk(COQ):
        for f in files:
            if f.endswith((".vo", ".vok", ".vos", ".glob", ".aux")) or f in (".Makefile.d", "Makefile", "Makefile.conf", "_CoqProject"):
                try:
                    os.remove(os.path.join(root, f))
                except OSError:
                    pass


def coq_build(targets, timeout=3000):
    """make the given .vo targets; returns (ok, log).  A failure that comes from damaged or stale
    build products (interrupted earlier build, copied half-written files) is repaired by one
    clean rebuild of the targets from the sources."""
    ensure_makefile()
    rc, out = sh(["make", "-j16"] + targets, cwd=COQ, timeout=timeout)
    if rc != 0 and STALE_RE.search(out):
        coq_clean()
        ensure_makefile()
        rc, out2 = sh(["make", "-j16"] + targets, cwd=COQ, timeout=timeout)
        out = out[-800:] + "\n[clean rebuild]\n" + out2
    return rc == 0, out


def coq_property(pid, timeout=3000):
    """(Re)compile Properties/<pid>.v and parse its Print Assumptions output.
    Returns dict(ok, log, theorems=[(name, [axioms])], checks=n)."""
    vo = os.path.join(COQ, "Properties", pid + ".vo")
    if os.path.exists(vo):
        os.remove(vo)
    ok, log = coq_build(["Properties/%s.vo" % pid], timeout)
    res = {"ok": ok, "log": log, "theorems": [], "pins": 0}
    if not ok:
        return res
    src = open(os.path.join(COQ, "Properties", pid + ".v")).read()
    src_nc = re.sub(r"\(\*.*?\*\)", " ", src, flags=re.S)
    names = re.findall(r"Print Assumptions\s+([\w.']+)\s*\.", src_nc)
    res["pins"] = len(re.findall(r"^\s*Check\s+[\w.']+\s*:", src_nc, flags=re.M))
    # Coq prints one block per Print Assumptions, in order
    blocks = re.split(r"(?=Closed under the global context|Axioms:)", log)
    blocks = [b for b in blocks if b.startswith("Closed under") or b.startswith("Axioms:")]
    for i, n in enumerate(names):
        if i >= len(blocks):
            res["theorems"].append((n, ["<no output>"]))
            continue
        b = blocks[i]
        if b.startswith("Closed under"):
            res["theorems"].append((n, []))
        else:
            ax = re.findall(r"^\s{0,2}([\w.']+)\s*:", b[len("Axioms:"):], flags=re.M)
            res["theorems"].append((n, ax))
    return res


def cargo_build(bins, features=None, timeout=3000):
    """Build harness bins in both profiles against /repo's working tree, hooks on."""
    os.makedirs(BUILD, exist_ok=True)
    lock_src = os.path.join(REPO, "Cargo.lock")
    lock_dst = os.path.join(HARNESS, "Cargo.lock")
    if not os.path.exists(lock_dst):
        shutil.copy(lock_src, lock_dst)
    env = {"RUSTFLAGS": "--cfg recmo_uint_verif -Awarnings", "CARGO_TARGET_DIR": TARGET}
    logs = ""
    for prof in ([], ["--release"]):
        cmd = ["cargo", "build", "--offline"] + prof
        for b in bins:
            cmd += ["--bin", b]
        if features:
            cmd += ["--features", ",".join(features)]
        rc, out = sh(cmd, cwd=HARNESS, timeout=timeout, env=env)
        logs += out
        if rc != 0:
            return False, logs
    return True, logs


def run_harness(binname, profile, lines, shards=16):
    """Run case lines through the harness bin; returns list of result lines."""
    exe = os.path.join(TARGET, profile, binname)
    n = len(lines)
    if n == 0:
        return []
    k = max(1, min(shards, n // 200 + 1))
    chunks = [lines[i::k] for i in range(k)]

    def go(chunk):
        try:
            p = subprocess.run([exe], input="\n".join(chunk) + "\n", stdout=subprocess.PIPE,
                               stderr=subprocess.PIPE, text=True, timeout=CHUNK_TIMEOUT)
            out = p.stdout.splitlines()
            ok = p.returncode == 0 and len(out) == len(chunk)
        except subprocess.TimeoutExpired:
            out, ok = [], False
        if not ok:
            # the process died (abort, stack overflow ...) or hangs: isolate line by line;
            # `T` = this call did not terminate within LINE_TIMEOUT (translated to OutOfFuel,
            # which no model answer and no specification accepts)
            out = []
            hangs = 0
            for ln in chunk:
                try:
                    q = subprocess.run([exe], input=ln + "\n", stdout=subprocess.PIPE,
                                       stderr=subprocess.PIPE, text=True,
                                       timeout=LINE_TIMEOUT if hangs < 3 else 2)
                    o = q.stdout.splitlines()
                    out.append(o[0] if (q.returncode == 0 and len(o) == 1) else "P")
                except subprocess.TimeoutExpired:
                    hangs += 1
                    out.append("T")
            # a timeout under a loaded machine is not a non-terminating call: every `T` gets one
            # more run with a generous limit before it is reported (bounded: at most 8 such reruns)
            for i, r in enumerate(out):
                if r == "T" and hangs <= 8:
                    try:
                        q = subprocess.run([exe], input=chunk[i] + "\n", stdout=subprocess.PIPE,
                                           stderr=subprocess.PIPE, text=True, timeout=12 * LINE_TIMEOUT)
                        o = q.stdout.splitlines()
                        out[i] = o[0] if (q.returncode == 0 and len(o) == 1) else "P"
                    except subprocess.TimeoutExpired:
                        pass
        return out

    with ThreadPoolExecutor(max_workers=k) as ex:
        outs = list(ex.map(go, chunks))
    res = [None] * n
    for j, o in enumerate(outs):
        for i, r in enumerate(o):
            res[j + i * k] = r
    return res


VERDICT_RE = re.compile(r"\(\s*(\d+)\s*,\s*(true|false)\s*,\s*(true|false)\s*,\s*(true|false)\s*,\s*(true|false)\s*\)")


def coq_corpus(pid, runmod, cases, debug, tag, per_shard=400, timeout=1800):
    """cases: list of (id, line, implresult). Evaluates Check.bad_cases in coqc shards.
    Returns (list of (id, wf, agree, spec, modelspec), errors)."""
    d = os.path.join(BUILD, "corpus", pid, tag)
    shutil.rmtree(d, ignore_errors=True)
    os.makedirs(d)
    shards = [cases[i:i + per_shard] for i in range(0, len(cases), per_shard)]
    files = []
    for si, sh_cases in enumerate(shards):
        fn = os.path.join(d, "shard_%d.v" % si)
        with open(fn, "w") as f:
            f.write("From RV.Model Require Import Base.\nFrom RV.Run Require Import Check %s.\n" % runmod)
            f.write("Definition cases : list (Z * call * result) := [\n")
            f.write(";\n".join("(%d, %s, %s)" % (cid, line_to_call(line), res_to_coq(r))
                               for cid, line, r in sh_cases))
            f.write("].\n")
            f.write("Definition verdicts := Eval vm_compute in (bad_cases run spec wfb %s cases).\n"
                    % ("true" if debug else "false"))
            f.write("Print verdicts.\n")
        files.append(fn)

    def go(fn):
        return sh(["coqc", "-noglob", "-R", COQ, "RV", fn], cwd=d, timeout=timeout)

    bad, errors = [], []
    with ThreadPoolExecutor(max_workers=16) as ex:
        for fn, (rc, out) in zip(files, ex.map(go, files)):
            if rc != 0:
                errors.append("%s: %s" % (fn, out[-2000:]))
                continue
            for m in VERDICT_RE.finditer(out):
                bad.append((int(m.group(1)),) + tuple(g == "true" for g in m.groups()[1:]))
    return bad, errors


def coq_eval_call(runmod, line):
    """Model's answer for one case (raw Coq text), for replay files."""
    d = os.path.join(BUILD, "corpus", "_eval")
    os.makedirs(d, exist_ok=True)
    fn = os.path.join(d, "e_%s.v" % hashlib.sha1(line.encode()).hexdigest()[:10])
    with open(fn, "w") as f:
        f.write("From RV.Model Require Import Base.\nFrom RV.Run Require Import %s.\n" % runmod)
        f.write("Eval vm_compute in (run %s).\n" % line_to_call(line))
    rc, out = sh(["coqc", "-noglob", "-R", COQ, "RV", fn], cwd=d, timeout=600)
    return re.sub(r"\s+", " ", out).strip()


# ---------------------------------------------------------------- known findings
def load_findings():
    p = os.path.join(VERIF, "known_findings.jsonl")
    out = []
    if os.path.exists(p):
        for ln in open(p):
            ln = ln.strip()
            if ln and not ln.startswith("#"):
                out.append(json.loads(ln))
    return out


def write_replay(pid, obj):
    d = os.path.join(VERIF, "replays")
    os.makedirs(d, exist_ok=True)
    h = hashlib.sha1(json.dumps(obj, sort_keys=True).encode()).hexdigest()[:12]
    p = os.path.join(d, "%s-%s.json" % (pid, h))
    with open(p, "w") as f:
        json.dump(obj, f, indent=1, sort_keys=True)
    return p


def write_evidence(pid, ev):
    d = os.path.join(VERIF, "evidence")
    os.makedirs(d, exist_ok=True)
    with open(os.path.join(d, pid + ".json"), "w") as f:
        json.dump(ev, f, indent=1, sort_keys=True)


HOOK_NAMES = ["knuth_norm_forced_digit", "knuth_norm_addback", "knuth_addback", "knuth_forced_digit",
              "knuth_shift0_path", "knuth_shifted_path", "div_2x1_decrement", "div_2x1_increment",
              "div_3x2_decrement", "div_3x2_increment", "recip2_adj1", "recip2_adj1b", "recip2_adj2",
              "recip2_adj2b"]


def hook_counters(binname, lines, profile="release"):
    """Runs all lines in ONE process followed by `__hooks` and returns {hook name: count} as
    counted by the cfg(recmo_uint_verif) counters inside the crate."""
    exe = os.path.join(TARGET, profile, binname)
    p = subprocess.run([exe], input="\n".join(lines + ["__hooks 0"]) + "\n", stdout=subprocess.PIPE,
                       stderr=subprocess.PIPE, text=True)
    out = p.stdout.splitlines()
    if not out or not out[-1].startswith("L:"):
        return {}
    vals = [int(x, 16) for x in out[-1][2:].split(",") if x]
    return {n: vals[i] for i, n in enumerate(HOOK_NAMES) if i < len(vals)}


def coqchk(pid, timeout=3600):
    """Independent re-check of Properties/<pid>.vo and everything it depends on (coqchk -o).
    Returns (ok, axioms list, summary text)."""
    rc, out = sh(["coqchk", "-silent", "-o", "-R", ".", "RV", "RV.Properties." + pid], cwd=COQ, timeout=timeout)
    m = re.search(r"\* Axioms:(.*?)\n\s*\n\* Constants/Inductives relying on type-in-type:(.*?)\n\s*\n"
                  r"\* Constants/Inductives relying on unsafe \(co\)fixpoints:(.*?)\n\s*\n"
                  r"\* Inductives whose positivity is assumed:(.*?)\n", out, flags=re.S)
    if rc != 0 or not m:
        return False, ["<coqchk failed>"], out[-1500:]
    secs = [x.strip() for x in m.groups()]
    axioms = [] if secs[0] == "<none>" else [l.strip() for l in secs[0].splitlines() if l.strip()]
    ok = all(x == "<none>" for x in secs[1:]) and all(a in ALLOWED_AXIOMS for a in axioms)
    return ok, axioms, "; ".join(secs)


def source_hash(path):
    """sha1 of a Rust source file with comments and all whitespace removed ('' if missing)."""
    try:
        txt = open(path).read()
    except OSError:
        return ""
    txt = re.sub(r"//[^\n]*", "", txt)
    txt = re.sub(r"/\*.*?\*/", "", txt, flags=re.S)
    return hashlib.sha1(re.sub(r"\s+", "", txt).encode()).hexdigest()


def changed_anchor_files(pid):
    """Anchored source files of property pid whose normalised hash differs from the recorded one."""
    try:
        base = json.load(open(os.path.join(VERIF, "vlib", "source_hashes.json")))
        anchors = []
        for l in open(os.path.join(VERIF, "properties.jsonl")):
            p = json.loads(l)
            if p["id"] == pid:
                anchors = p["anchors"]["files"]
    except Exception:
        return []
    return [f for f in anchors if source_hash(os.path.join(REPO, f)) != base.get(f)]


# ---- source tie: the word-level helpers are translated from the Rust text on every run
GENTIE_FILES = ["src/lib.rs", "src/from.rs", "src/add.rs", "src/div.rs", "src/cmp.rs", "src/special.rs", "src/bits.rs", "src/bytes.rs", "src/pow.rs", "src/log.rs", "src/modular.rs", "src/algorithms/gcd/matrix.rs", "src/algorithms/gcd/mod.rs", "src/gcd.rs", "src/mul.rs", "src/algorithms/mod.rs", "src/algorithms/ops.rs",
                "src/algorithms/mul.rs", "src/algorithms/mul_redc.rs", "src/algorithms/add.rs", "src/algorithms/shift.rs",
                "src/algorithms/div/reciprocal.rs", "src/algorithms/div/small.rs", "src/algorithms/div/mod.rs", "src/algorithms/div/knuth.rs"]


def gentie_applies(pid):
    """The properties whose anchored files contain a translated function."""
    try:
        for l in open(os.path.join(VERIF, "properties.jsonl")):
            p = json.loads(l)
            if p["id"] == pid:
                return any(f in GENTIE_FILES for f in p["anchors"]["files"])
    except Exception:
        pass
    return False


def gen_tie(timeout=900):
    """Regenerate coq/Gen/Scalar.v from REPO's current text (tools_rs2v.py) and re-check
    Properties/GenTie.v (generated definitions = model functions) against it.
    Returns dict(status = proved | broken, functions = {gname: pure|outcome|unsupported...}, log)."""
    sys.path.insert(0, VERIF)
    import tools_rs2v
    out = os.path.join(COQ, "Gen", "Scalar.v")
    try:
        text, status = tools_rs2v.translate(REPO)
    except Exception as ex:                       # the translator itself failed: no tie this run
        return {"status": "broken", "functions": {}, "log": "translator: %r" % (ex,)}
    old = open(out).read() if os.path.exists(out) else None
    if old != text:
        os.makedirs(os.path.dirname(out), exist_ok=True)
        open(out, "w").write(text)
    vo = os.path.join(COQ, "Properties", "GenTie.vo")
    if os.path.exists(vo):
        os.remove(vo)                              # always re-checked, so that its output is read
    ok, log = coq_build(["Properties/GenTie.vo"], timeout)
    src = re.sub(r"\(\*.*?\*\)", " ", open(os.path.join(COQ, "Properties", "GenTie.v")).read(), flags=re.S)
    npa = len(re.findall(r"Print Assumptions", src))
    closed = ok and log.count("Closed under the global context") == npa and "Axioms:" not in log
    res = {"status": "proved" if (ok and closed) else "broken", "functions": status,
           "regenerated": old != text, "log": "" if ok else log[-1200:]}
    return res
