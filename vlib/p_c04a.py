"""C04 part (a) — closure under operation histories: program generator.

Case line: `history bits LL:<initial registers> L:<program>`; program = flat word list, every
instruction = opcode, dst, src1, src2, src3, n, imm_1 .. imm_n (see coq/Model/History.v).
Most programs are "safe": immediates are chosen so that no step panics (a panic ends the run and
hides the later steps), with small macros that establish the conditions of use of div/rem
(divisor made odd), next_power_of_two (operand halved first) and mul_redc (odd modulus loaded,
operands reduced, inv computed here).  "Wild" programs use arbitrary immediates."""
import struct

from . import common as C
from .p_c04 import LEVEL, RULE, TRUSTED, ASSUMPTIONS, EXPLANATION  # `./check c04a` stand-alone

PID = "C04"
BIN = "c04a"
RUNMOD = "RunC04a"
SUSPECT = []

# opcode classes (operands: a = src1, b = src2, c = src3)
BIN2 = [1, 2, 4, 5, 7, 8, 9, 10, 12, 40, 41, 42, 110, 113, 114, 121, 122, 123, 130, 131, 134, 135, 136]   # a, b
UN1 = [3, 6, 11, 43, 45, 47, 74, 75, 76, 77, 104]                  # a
SHIFT = [20, 21, 22, 23, 24, 25, 26, 27, 28, 29]                   # a, amount
SHIFTU = [30, 31]                                                  # a, b
CONST = [100, 101, 102, 103]
MOD3 = [115, 116, 117]                                             # a, b, c
ALL = (BIN2 + UN1 + SHIFT + SHIFTU + CONST + MOD3 +
       [44, 46, 50, 51, 52, 53, 54, 55, 56, 57, 58, 59, 60, 61, 62, 63, 70, 71, 72, 73, 80, 81, 82, 83,
        90, 91, 92, 93, 94, 95, 111, 112, 118, 119, 120, 124, 125, 126, 127, 128, 129, 132, 133])


def unit(bits):
    """seconds of coqc time for one general division (Z.modulo / Z.div) of the *specification* at this
    width (the limb-level models are much cheaper); every case is evaluated three times (model,
    spec on the observed answer, spec on the model's)"""
    return 3 * 0.07 * (bits / 536.0) ** 2


def pow_bits(bits, per_mul):
    """exponent length such that a square-and-multiply costs about 0.1 s"""
    return max(1, min(bits, int(0.1 / (1.5 * per_mul + 1e-9))))


def cost(op, bits):
    u = unit(bits)
    if op in (111, 112, 115, 116, 124, 125, 126, 127, 128, 130, 132):
        return u
    if op in (120, 129):           # modular inverse: one wide division (the other operand is kept short)
        return u + 0.02
    if op in (134, 135, 136):
        return 0.1
    if op == 133:
        return 14 * u
    if op == 117:
        return 0.12 + u
    if op == 113:
        return 0.1
    if op == 119:
        return 14 * u
    if op == 118:
        return 2 * u
    if op in (80, 81, 82, 83):
        return 0.5 * u
    return 0.0


def ins(op, d, a=0, b=0, c=0, imm=()):
    return [op, d, a, b, c, len(imm)] + list(imm)


def amount(rng, bits):
    r = rng.random()
    if r < 0.5:
        return rng.choice([0, 1, 63, 64, 65, max(bits - 1, 0), bits, bits + 1, bits // 2, 2 * bits])
    if r < 0.85:
        return rng.randrange(0, bits + 70)
    return rng.choice([1 << 32, 1 << 63, C.B64 - 1, C.B64 - 64, rng.getrandbits(64)])


def f64_pattern(rng, bits):
    r = rng.random()
    if r < 0.45:
        v = C.rand_value(rng, min(bits, 1000) + rng.choice([0, 0, 1, 3]))
        try:
            f = float(v)
        except OverflowError:
            f = float("inf")
        if rng.random() < 0.15:
            f = -f
        if rng.random() < 0.3:
            f += rng.choice([0.5, 0.25, -0.5, 0.49999999999999994, 1.5])
        return struct.unpack("<Q", struct.pack("<d", f))[0]
    if r < 0.6:
        return rng.choice([0, 1 << 63, 0x7ff0000000000000, 0xfff0000000000000, 0x7ff8000000000000, 1,
                           0x3fe0000000000000, 0x3fdfffffffffffff, 0x3ff0000000000000, 0x4330000000000001,
                           0x7fefffffffffffff, 0x000fffffffffffff, 0xbfe0000000000000])
    if r < 0.8:
        e = 1023 + rng.choice([bits - 1, bits, bits + 1, 52, 53, 63, 64, rng.randrange(0, bits + 60)])
        return ((e & 0x7ff) << 52) | rng.choice([0, 1, (1 << 52) - 1, rng.getrandbits(52)])
    return rng.getrandbits(64)


def f32_pattern(rng, bits):
    r = rng.random()
    if r < 0.4:
        return rng.choice([0, 1 << 31, 0x7f800000, 0xff800000, 0x7fc00000, 1, 0x3f000000, 0x3f800000,
                           0x4b000001, 0x7f7fffff, 0x3effffff])
    if r < 0.8:
        e = 127 + rng.choice([bits - 1, bits, bits + 1, 23, 24, 31, 32, rng.randrange(0, min(bits, 120) + 8)])
        return ((e & 0xff) << 23) | rng.choice([0, 1, (1 << 23) - 1, rng.getrandbits(23)])
    return rng.getrandbits(32)


ALPHA36 = "0123456789abcdefghijklmnopqrstuvwxyz"
ALPHA64 = "ABCDEFGHIJKLMNOPQRSTUVWXYZabcdefghijklmnopqrstuvwxyz0123456789+/"


def digits_of(v, base):
    ds = []
    while v:
        ds.append(v % base)
        v //= base
    return ds[::-1]


def text_of(rng, v, radix):
    ds = digits_of(v, radix) or [0]
    if radix <= 36:
        s = "".join(ALPHA36[d].upper() if rng.random() < 0.3 else ALPHA36[d] for d in ds)
        if rng.random() < 0.3:
            s = s[:len(s) // 2] + "_" + s[len(s) // 2:]
    else:
        s = "".join(ALPHA64[d] if d < 62 else rng.choice("+-" if d == 62 else "/,_") for d in ds)
        if rng.random() < 0.3:
            s += rng.choice(["=", "==", "\n"])
    return [ord(ch) for ch in s]


def safe_ins(rng, bits, nregs, wild, budget=None, todo=None):
    """one instruction (or a small macro) as a list of words; budget = [seconds left] for the
    operations whose specification needs general divisions"""
    m = 1 << bits
    n = C.nlimbs(bits)
    R = lambda: rng.randrange(nregs)
    d = R()
    forced = bool(todo)
    op = todo.pop() if todo else rng.choice(ALL)     # todo: opcodes not yet used at this width
    if budget is not None:
        if forced and cost(op, bits) > budget[0] and cost(op, bits) > 13.0:
            forced = False                           # too expensive even once (very wide): skip
            op = rng.choice(ALL)
        if not forced:
            for _ in range(20):
                if cost(op, bits) <= budget[0]:
                    break
                op = rng.choice(ALL)
            else:
                op = rng.choice(BIN2[:12])
        budget[0] -= cost(op, bits)
    if op in BIN2:
        if op in (113, 134, 135, 136) and bits > 0:
            # wrapping_pow: keep the exponent short at large widths (the spec squares per exponent bit)
            e = R()
            eb = pow_bits(bits, 3 * 0.002 * (bits / 536.0) ** 2)
            if eb < bits:
                return ins(26, e, e, imm=[bits - rng.randrange(1, eb + 1)]) + ins(op, d, R(), e)
        return ins(op, d, R(), R())
    if op in UN1:
        return ins(op, d, R())
    if op in SHIFT:
        return ins(op, d, R(), imm=[amount(rng, bits)])
    if op in SHIFTU:
        b = R()
        pre = []
        if rng.random() < 0.6 and bits > 0:
            pre = ins(52, b, imm=[amount(rng, bits) % m])      # small amount register
        return pre + ins(op, d, R(), b)
    if op in CONST:
        return ins(op, d)
    if op in MOD3:
        if op == 117 and bits > 0:
            e = R()
            eb = pow_bits(bits, unit(bits))
            if eb < bits:
                return ins(26, e, e, imm=[bits - rng.randrange(1, eb + 1)]) + ins(op, d, R(), e, R())
        return ins(op, d, R(), R(), R())
    if op == 44:
        return ins(op, d, R(), imm=[amount(rng, bits), rng.randrange(2)])
    if op == 46:                                   # next_power_of_two
        a = R()
        if wild or bits == 0:
            return ins(op, d, a)
        return ins(26, a, a, imm=[rng.choice([1, 1, 2, bits // 2])]) + ins(op, d, a)
    if op in (50, 51, 52, 53):
        v = C.rand_limb(rng)
        if op == 51 and not wild:
            v %= m
        return ins(op, d, imm=[v])
    if op in (54, 55, 56, 57):
        v = rng.choice([C.rand_limb(rng) | (C.rand_limb(rng) << 64), rng.getrandbits(128), C.rand_limb(rng)])
        if op == 55 and not wild:
            v %= m
        return ins(op, d, imm=[v & (C.B64 - 1), v >> 64])
    if op in (58, 59, 60, 61, 62):
        k = rng.choice([0, max(n - 1, 0), n, n, n + 1, n + 2])
        s = [C.rand_limb(rng) for _ in range(k)]
        if op == 58 and not wild:
            s = C.to_limbs(C.rand_value(rng, bits), n) + [0] * rng.randrange(3)
        elif k >= n > 0 and rng.random() < 0.5:
            s[n - 1] = rng.choice([C.mask(bits), (C.mask(bits) + 1) % C.B64, C.mask(bits) >> 1, C.B64 - 1])
        return ins(op, d, imm=s)
    if op == 63:
        l = C.to_limbs(C.rand_value(rng, bits), n)
        if wild and n and rng.random() < 0.5:
            l[-1] = rng.choice([C.B64 - 1, (C.mask(bits) + 1) % C.B64])
        return ins(op, d, imm=l)
    if op in (70, 71, 72, 73):
        nb = (bits + 7) // 8
        v = C.rand_value(rng, bits)
        k = rng.choice([nb, nb, max(nb - 1, 0), rng.randrange(nb + 1)])
        v %= 1 << (8 * k)
        bs = [(v >> (8 * i)) & 0xff for i in range(k)]
        if op in (70, 72):
            bs.reverse()
        if wild or (op in (70, 71) and rng.random() < 0.3):
            r = rng.random()
            if r < 0.4:
                bs = bs + [rng.choice([0, 1])] if op in (71, 73) else [rng.choice([0, 1])] + bs   # too long
            elif bs:
                i = -1 if op in (71, 73) else 0
                bs[i] = 0xff                                                                       # excess bits
        return ins(op, d, imm=bs)
    if op in (80, 81):
        base = rng.choice([2, 3, 10, 16, 36, 64, 255, 256, 1 << 32, C.B64 - 1, rng.randrange(2, 1000)])
        v = C.rand_value(rng, bits if bits <= 600 or base > 255 else 300)
        if rng.random() < 0.15:
            v = C.rand_value(rng, bits + 3)                 # may overflow
        ds = digits_of(v, base)
        if rng.random() < 0.3:
            ds = [0] * rng.randrange(3) + ds
        if op == 81:
            ds.reverse()
        if wild:
            r = rng.random()
            if r < 0.3:
                base = rng.choice([0, 1])
            elif r < 0.7 and ds:
                ds[rng.randrange(len(ds))] = rng.choice([base, base + 1, C.B64 - 1]) & (C.B64 - 1)
        return ins(op, d, imm=[base] + ds)
    if op == 82:
        radix = rng.choice([2, 8, 10, 16, 36, 37, 62, 64, rng.randrange(2, 65)])
        v = C.rand_value(rng, min(bits, 600))
        if rng.random() < 0.15:
            v = C.rand_value(rng, min(bits, 600) + 3)
        cs = text_of(rng, v, radix)
        if wild:
            r = rng.random()
            if r < 0.25:
                radix = rng.choice([0, 1, 65, 100, C.B64 - 1])
            elif r < 0.7:
                cs.insert(rng.randrange(len(cs) + 1), rng.choice([0x20, 0x7e, 0xe9, 0x4e2d, 0x1f600, ord("z"), ord("Z")]))
        return ins(op, d, imm=[radix] + cs)
    if op == 83:
        base = rng.choice([2, 10, 16, 255, 1 << 32, C.B64 - 1, rng.randrange(2, 70)]) if bits <= 600 \
            else rng.choice([1 << 32, C.B64 - 1, (1 << 63) + 5, 10 ** 19])
        if wild and rng.random() < 0.3:
            base = rng.choice([0, 1])
        return ins(op, d, R(), imm=[base])
    if op in (90, 91, 92):
        return ins(op, d, imm=[f64_pattern(rng, bits)])
    if op in (93, 94, 95):
        v = f32_pattern(rng, bits)
        if wild and rng.random() < 0.1:
            v |= 1 << 40
        return ins(op, d, imm=[v])
    if op in (111, 112, 124, 125, 126, 127, 128, 132):   # division: make the divisor odd first
        b = R()
        if wild or bits == 0 or (op in (125, 126, 128, 132) and rng.random() < 0.2):
            return ins(op, d, R(), b)
        if op == 127 and bits >= 2:                # next_multiple_of: keep the result in range
            a = R()
            while a == b and nregs > 1:
                a = R()
            if a == b:
                return ins(op, d, a, b)
            return (ins(26, a, a, imm=[rng.randrange(1, bits)]) + ins(26, b, b, imm=[rng.randrange(1, bits)]) +
                    ins(44, b, b, imm=[0, 1]) + ins(op, d, a, b))
        pre = ins(44, b, b, imm=[0, 1])
        if rng.random() < 0.5:
            pre += ins(26, b, b, imm=[rng.randrange(bits)]) + ins(44, b, b, imm=[0, 1])
        return pre + ins(op, d, R(), b)
    if op == 120:                                  # inv_ring: mostly of a short odd value (cheap for the spec)
        a = R()
        if wild and bits <= 128:
            return ins(op, d, a)
        v = (C.rand_limb(rng) | 1) if rng.random() < 0.85 else C.rand_limb(rng)
        return ins(52, a, imm=[v]) + ins(op, d, a)
    if op == 129:                                  # inv_mod: short modulus
        a, b = R(), R()
        if wild and bits <= 128:
            return ins(op, d, a, b)
        mod = rng.choice([C.rand_limb(rng), C.rand_limb(rng) | 1, 0, 1, 2, rng.getrandbits(16) | 1])
        return ins(52, b, imm=[mod]) + ins(op, d, a, b)
    if op == 133:                                  # square_redc, as mul_redc
        if bits == 0 or (wild and rng.random() < 0.5):
            return ins(op, d, R(), 0, R(), imm=[C.rand_limb(rng)])
        mod = C.rand_value(rng, bits) | 1
        if rng.random() < 0.5:
            mod = ((m - 1) - ((m - 1 - mod) >> rng.randrange(bits))) | 1
        mod %= m
        inv = (-pow(mod % C.B64, -1, C.B64)) % C.B64
        regs = list(range(nregs))
        rng.shuffle(regs)
        mr, a = regs[0], regs[1 % nregs]
        if a == mr:
            return ins(60, mr, imm=C.to_limbs(mod, n)) + ins(112, d, mr, mr) + ins(op, d, d, 0, mr, imm=[inv])
        return ins(60, mr, imm=C.to_limbs(mod, n)) + ins(112, a, a, mr) + ins(op, d, a, 0, mr, imm=[inv])
    if op == 118:
        deg = rng.choice([1, 2, 3, 5, 7, max(bits - 1, 1), bits, bits + 1, 64, rng.randrange(1, bits + 3), C.B64 - 1])
        if bits > 512 and not wild:
            deg = rng.choice([2, 3, 64, bits - 1, bits, bits + 5, C.B64 - 1])
        if wild and rng.random() < 0.3:
            deg = 0
        return ins(op, d, R(), imm=[max(deg, 0 if wild else 1)])
    if op == 119:                                  # mul_redc
        if bits == 0:
            return ins(op, d, R(), R(), R(), imm=[C.rand_limb(rng)])
        if wild and rng.random() < 0.5:
            return ins(op, d, R(), R(), R(), imm=[C.rand_limb(rng)])
        mod = C.rand_value(rng, bits) | 1
        if rng.random() < 0.5:
            mod = (m - 1) - ((m - 1 - mod) >> rng.randrange(bits))     # large moduli (top limb high)
            mod |= 1
        mod %= m
        inv = (-pow(mod % C.B64, -1, C.B64)) % C.B64
        regs = list(range(nregs))
        rng.shuffle(regs)
        mr = regs[0]
        a, b = (regs[1 % nregs], regs[2 % nregs]) if nregs > 1 else (mr, mr)
        if a == mr or b == mr:
            # not enough registers to keep modulus and operands apart: operand = modulus would break
            # a < m; use the reduced operand 0 = m % m
            return (ins(60, mr, imm=C.to_limbs(mod, n)) + ins(112, d, mr, mr) +
                    ins(op, d, d, d, mr, imm=[inv]))
        return (ins(60, mr, imm=C.to_limbs(mod, n)) + ins(112, a, a, mr) + ins(112, b, b, mr) +
                ins(op, d, a, b, mr, imm=[inv]))
    raise AssertionError(op)


def program(rng, bits, nregs, length, wild, seconds=0.25, todo=None):
    out = []
    budget = [seconds]
    for _ in range(length):
        out += safe_ins(rng, bits, nregs, wild, budget, None if wild else todo)
    return out


def line(bits, regs, prog):
    return "history %d %s %s" % (bits, C.tokLL([C.to_limbs(v, C.nlimbs(bits)) for v in regs]), C.tokL(prog))


def corpus():
    out = []
    for bits in (0, 1, 63, 64, 65, 128, 129, 256):
        m = 1 << bits
        regs = [m - 1, 1 % m, (m >> 1)]
        # every single opcode once on boundary registers (panicking ones included)
        for op in ALL:
            imm = {44: [bits - 1 if bits else 0, 1], 50: [C.B64 - 1], 52: [C.B64 - 1], 53: [C.B64 - 1],
                   54: [C.B64 - 1, C.B64 - 1], 56: [C.B64 - 1, C.B64 - 1], 57: [C.B64 - 1, C.B64 - 1],
                   60: [C.B64 - 1] * (C.nlimbs(bits) + 1), 61: [C.B64 - 1] * (C.nlimbs(bits) + 1),
                   62: [C.B64 - 1] * (C.nlimbs(bits) + 1), 59: [C.B64 - 1] * (C.nlimbs(bits) + 1),
                   80: [16, 15, 15], 81: [16, 15, 15], 82: [16, 102, 70], 83: [10],
                   91: [0x7fefffffffffffff], 92: [0x7fefffffffffffff], 90: [0xc000000000000000],
                   94: [0x7f7fffff], 95: [0x7f7fffff], 93: [0xbf800000], 118: [2],
                   20: [1], 22: [1], 24: [1], 25: [1], 27: [1], 28: [1], 29: [1], 21: [1], 23: [1], 26: [1]}.get(op, [])
            out.append(line(bits, regs, ins(op, 2, 0, 1, 2, imm)))
        # MAX + 1, MAX * MAX, !0, 0 - 1, MAX << 1, rotations: the mask must be applied every time
        prog = (ins(9, 2, 0, 1) + ins(110, 2, 0, 0) + ins(43, 2, 2) + ins(10, 2, 2, 1) + ins(25, 2, 0, imm=[1]) +
                ins(28, 2, 0, imm=[1]) + ins(103, 2) + ins(11, 2, 1) + ins(45, 2, 1))
        out.append(line(bits, regs, prog))
    return [x for x in out if x not in SUSPECT]


def gen(rng, tier):
    widths = C.WIDTHS_QUICK if tier == "quick" else C.WIDTHS_QUICK + C.WIDTHS_MORE
    reps = 56 if tier == "quick" else 400
    out = []
    for bits in widths:
        k = reps if bits <= 256 else (reps // 2 if bits <= 600 else max(reps // 5, 8))
        todo = list(ALL)
        rng.shuffle(todo)
        for j in range(k):
            nregs = rng.choice([2, 3, 3, 4])
            regs = [C.rand_value(rng, bits) for _ in range(nregs)]
            wild = rng.random() < 0.15
            maxlen = 40 if bits <= 600 else 12
            length = rng.choice([1, 2, 3, 5, 8, 13, 20, maxlen]) if not wild else rng.choice([1, 2, 3, 4])
            out.append(line(bits, regs, program(rng, bits, nregs, min(length, maxlen), wild, todo=todo)))
    rng.shuffle(out)          # spread the wide cases over the coqc shards
    return [x for x in out if x not in SUSPECT]


def nontrivial(line):
    p = line.split()
    return p[1] != "0" and len(p[3]) > 2


def known_class(finding, line):
    return False
