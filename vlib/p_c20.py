"""C20 — operator, wrapper and trait facades agree with the inherent methods:
case generator, forwarding-table check and metadata."""
import json
import os
import re
import sys

from . import common as C

PID = "C20"
BIN = "c20"
RUNMOD = "RunC20"
FEATURES = ["facades"]
LEVEL = "proof"
RULE = ("every facade entry point (6 impl_bin_op! shapes x Add/Sub/Mul/Div/Rem, Neg/Not, 6 bit-op shapes, "
        "Shl/Shr by 10 primitive amount types x 4 shapes and by Uint x 4 shapes, Sum/Product, every forwarded "
        "Bits method/operator/conversion, every num-traits / num-integer / subtle / zeroize impl) x every harness "
        "width; operands chosen so that wrong variants differ: non-commutative pairs, overflowing sums/products, "
        "quotient != remainder, left != right shift, zero divisors (panic parity), indices and amounts around "
        "BITS and 64, out-of-range byte strings; each case runs the facade and the inherent method on the same "
        "operands (both printed); non-trivial = BITS>0 and some operand not 0/1; distinct = distinct case lines")
TRUSTED = ["Coq 8.16.1 kernel + vm_compute",
           "hand-written Gallina models coq/Model/{Base,Word,Add,Shift,Bits,Conv,Bytes,Limbs,Mul,Div*,UDiv,Pow,Gcd*,"
           "BaseConv,Str,Facade}.v",
           "correspondence harness harness/src/bin/c20.rs (prints facade and inherent result of every case) + "
           "vlib (python) translation of tokens",
           "rustc/LLVM u64 semantics; subtle 2.6.1 u64::ct_gt = '>' and Choice = bool"]
ASSUMPTIONS = ["every inherent method is the model function of its own topic (Add, Shift, Bits, Conv, Bytes, Mul, UDiv, "
               "Pow, Gcd, Str); nothing is observed: run predicts facade and inherent result from the operands alone",
               "64-bit little-endian target (usize = u64; to_be/from_be swap, to_le/from_le are the identity)",
               "BITS < 2^32 for the PrimInt counting methods (as u32 is lossless)"]
EXPLANATION = ("Theorem C20_holds: forall wf call, spec call (run call) = true, where run prints the "
               "model of the facade body and of the inherent method and spec demands equal results (same value / "
               "None / flag / both panic; facades that unwrap an Option panic exactly on None) plus the value-level "
               "characterisation of ct_eq/ct_gt/ct_lt/select/negate/bit_ct/swap_bytes/is_multiple_of/mul_add/inc/dec; "
               "the correspondence run evaluates model "
               "and spec on the implementation's actual outputs (facade and inherent) inside coqc; the forwarding "
               "table extracted from the sources is compared with vlib/c20_table.json")

# Regression inputs of the repaired defect F-C20 (/repo 087eea9): bit_ct asserted index < BITS and
# panicked where the inherent `bit` returns false; expected now `B:0 E:0 B:0`.
BIT_CT_REGRESSIONS = [
    "ct_bit 8 L:5 Z:8",
    "ct_bit 0 L: Z:0",
    "ct_bit 1 L:1 Z:1",
    "ct_bit 64 L:1 Z:40",
    "ct_bit 65 L:1,1 Z:41",
    "ct_bit 256 L:1,2,3,4 Z:ffffffffffffffff",
]
SUSPECT = []

HERE = os.path.dirname(os.path.abspath(__file__))
TABLE = os.path.join(HERE, "c20_table.json")

# ------------------------------------------------------------------ forwarding table
SRC_FILES = ["src/macros.rs", "src/add.rs", "src/mul.rs", "src/div.rs", "src/bits.rs", "src/bit_arr.rs",
             "src/support/num_traits.rs", "src/support/num_integer.rs", "src/support/subtle.rs",
             "src/support/zeroize.rs"]


def _strip(txt):
    txt = re.sub(r"/\*.*?\*/", " ", txt, flags=re.S)
    txt = re.sub(r"//[^\n]*", " ", txt)
    # test modules are not facades
    m = re.search(r"#\[cfg\(test\)\]\s*mod\s+tests", txt)
    if m:
        txt = txt[:m.start()]
    return txt


def _norm(s):
    s = re.sub(r"#\[[^\]]*\]", " ", s)          # attributes
    s = re.sub(r"\s+", " ", s).strip()
    s = re.sub(r"\s*([(){}\[\]<>,;:&*=+\-|^!.])\s*", r"\1", s)
    s = re.sub(r",([)\]}])", r"\1", s)          # trailing commas of wrapped calls
    return s


def _block(txt, i):
    """txt[i] == '{' -> index just after the matching '}'"""
    d = 0
    for j in range(i, len(txt)):
        if txt[j] == "{":
            d += 1
        elif txt[j] == "}":
            d -= 1
            if d == 0:
                return j + 1
    return len(txt)


def _fns(body, prefix, out):
    for m in re.finditer(r"\bfn\s+(\$?\w+)", body):
        j = body.find("{", m.end())
        k = body.find(";", m.end())
        if j < 0 or (0 <= k < j):
            continue
        e = _block(body, j)
        sig = _norm(body[m.start():j])
        key = "%s::%s" % (prefix, m.group(1))
        n = 2
        while key in out:
            key = "%s::%s#%d" % (prefix, m.group(1), n)
            n += 1
        out[key] = sig + " => " + _norm(body[j + 1:e - 1])


def extract_table(repo=None):
    """facade -> (signature => body) for every fn of every impl block / macro arm of the facade
    files, plus the macro invocations (operator -> inherent method lists).  Whitespace,
    comments and attributes are normalised away."""
    repo = repo or os.environ.get("C20_REPO", C.REPO)
    out = {}
    for rel in SRC_FILES:
        p = os.path.join(repo, rel)
        if not os.path.exists(p):
            out[rel] = "<missing>"
            continue
        txt = _strip(open(p).read())
        short = os.path.basename(rel)[:-3]
        # macro definitions: every fn inside, keyed by macro name
        pos = 0
        spans = []
        for m in re.finditer(r"macro_rules!\s*(\w+)\s*\{", txt):
            e = _block(txt, m.end() - 1)
            spans.append((m.start(), e))
            if m.group(1) in ("uint", "assume", "debug_unreachable"):
                continue
            _fns(txt[m.end():e], "%s/macro %s" % (short, m.group(1)), out)
        rest = list(txt)
        for (s, e) in spans:
            for i in range(s, e):
                rest[i] = " "
        rest = "".join(rest)
        # macro invocations
        for m in re.finditer(r"\b(impl_bin_op|impl_bit_op|impl_shift|binary_op|forward)!\s*([({])", rest):
            close = ")" if m.group(2) == "(" else "}"
            if close == "}":
                e = _block(rest, m.end() - 1)
            else:
                e = rest.find(")", m.end()) + 1
            inv = _norm(rest[m.end():e - 1])
            key = "%s/%s!(%s)" % (short, m.group(1), inv[:60])
            out[key] = inv
        # impl blocks (outside macro definitions)
        if rel in ("src/macros.rs", "src/add.rs", "src/mul.rs", "src/div.rs"):
            # only the operator / iterator impls of these files are facades
            pat = r"\bimpl\s*<[^{]*?\b(Neg|Sum|Product)\b[^{]*\{"
        elif rel == "src/bits.rs":
            pat = r"\bimpl\s*<[^{]*?\b(Not|Shl|Shr|ShlAssign|ShrAssign)\b[^{]*\{"
        else:
            pat = r"\bimpl\s*<[^{]*\{"
        for m in re.finditer(pat, rest):
            head = _norm(rest[m.start():m.end() - 1])
            head = re.sub(r"^impl<[^>]*>", "", head)
            head = head.replace("<BITS,LIMBS>", "")
            e = _block(rest, m.end() - 1)
            _fns(rest[m.end():e - 1], "%s/%s" % (short, head), out)
    return out


def table_diff():
    """list of human-readable differences between the sources and vlib/c20_table.json"""
    try:
        exp = json.load(open(TABLE))
    except Exception as e:  # noqa: BLE001
        return ["expected table unreadable: %s" % e]
    got = extract_table()
    d = []
    for k in sorted(set(exp) | set(got)):
        if exp.get(k) != got.get(k):
            d.append("%s: expected <%s> found <%s>" % (k, exp.get(k, "absent"), got.get(k, "absent")))
    return d


# True (as specified for this property): a difference between the extracted forwarding table
# and vlib/c20_table.json is a correspondence break by itself (VIOLATION ... no-failing-input-found
# when every case passes).  False: the difference only widens the search and is recorded in the
# evidence file (the framework's policy for changed anchored sources).
TABLE_DIFF_IS_ALARM = False


def extra_evidence(lines):
    d = table_diff()
    return {"forwarding_table_entries": len(extract_table()), "forwarding_table_diff": d[:20],
            "forwarding_table_diff_is_alarm": TABLE_DIFF_IS_ALARM}


def _diff_lines():
    d = table_diff()
    out = []
    for x in d[:8]:
        tag = re.sub(r"[^A-Za-z0-9_:<>=().,!&*#/-]", "_", x)[:300]
        out.append("TABLE-DIFF:%s 0" % tag)
    return out


# ------------------------------------------------------------------ values
def U(bits, v):
    return C.tokU(bits, v)


def val(rng, bits):
    return C.rand_value(rng, bits)


def pair_add(rng, bits):
    a = val(rng, bits)
    m = 1 << bits
    r = rng.random()
    if r < 0.1:
        b = a
    elif r < 0.25:
        b = (m - a) % m
    elif r < 0.35:
        b = (m - 1 - a) % m
    elif r < 0.45:
        b = (a + rng.choice([-1, 1])) % m
    else:
        b = val(rng, bits)
    if a == b and bits > 1 and rng.random() < 0.8:
        b = (b + 1 + rng.randrange(m - 1)) % m      # non-commutative pair
    return a, b


def pair_mul(rng, bits):
    if bits == 0:
        return 0, 0
    r = rng.random()
    if r < 0.4:
        h = bits // 2 + rng.choice([0, 1, 2])
        return rng.getrandbits(max(1, min(bits, h))) | 1, rng.getrandbits(max(1, min(bits, bits - h + 2)))
    if r < 0.6:
        return val(rng, bits), rng.choice([0, 1, 2, 3]) % (1 << bits)
    return val(rng, bits), val(rng, bits)


def pair_div(rng, bits, zero=False):
    """dividend / divisor with quotient != remainder in most cases"""
    if bits == 0:
        return 0, 0
    m = 1 << bits
    a = val(rng, bits)
    if zero:
        return a, 0
    r = rng.random()
    if r < 0.5:
        b = rng.getrandbits(rng.randrange(1, bits + 1)) or 1
    elif r < 0.6:
        b = 1
    elif r < 0.7:
        b = a or 1
    elif r < 0.8:
        b = (a + 1) % m or 1
    else:
        b = val(rng, bits) or 1
    if r < 0.5 and a < b and rng.random() < 0.7:
        a, b = b, a
    return a, b or 1


def amount(rng, bits, limit=1 << 64):
    c = [0, 1, 2, 7, 63, 64, 65, bits - 1, bits, bits + 1, 2 * bits, bits // 2, 127, 128, 129,
         (1 << 32) - 1, (1 << 64) - 1, (1 << 63)]
    if bits > 1 and rng.random() < 0.5:
        return rng.randrange(1, bits)
    v = rng.choice(c)
    return max(0, v) % limit if v >= limit else max(0, v)


SHIFT_TY = {0: (0, (1 << 64) - 1), 1: (0, 255), 2: (0, 65535), 3: (0, (1 << 32) - 1), 4: (0, (1 << 64) - 1),
            5: (-(1 << 63), (1 << 63) - 1), 6: (-128, 127), 7: (-(1 << 15), (1 << 15) - 1),
            8: (-(1 << 31), (1 << 31) - 1), 9: (-(1 << 63), (1 << 63) - 1)}
PRIM = {1: (0, 255), 2: (0, 65535), 3: (0, (1 << 32) - 1), 4: (0, (1 << 64) - 1), 5: (0, (1 << 128) - 1),
        6: (0, (1 << 64) - 1), 7: (-128, 127), 8: (-(1 << 15), (1 << 15) - 1), 9: (-(1 << 31), (1 << 31) - 1),
        10: (-(1 << 63), (1 << 63) - 1), 11: (-(1 << 127), (1 << 127) - 1), 12: (-(1 << 63), (1 << 63) - 1)}


def tokZs(z):
    return "Z:%x" % z if z >= 0 else "Z:-%x" % (-z)


def shift_amount(rng, bits, ty):
    lo, hi = SHIFT_TY[ty]
    r = rng.random()
    if lo < 0 and r < 0.25:
        v = rng.choice([-1, lo, -bits, -64, -2])
    else:
        v = amount(rng, bits)
    return min(max(v, lo), hi)


def prim_value(rng, bits, ty):
    lo, hi = PRIM[ty]
    m = 1 << bits
    c = [0, 1, hi, hi - 1, m - 1, m, m + 1, 1 << 63, (1 << 64) - 1, 1 << 64, (1 << 64) + 5, 3 * (1 << 64) + 5]
    if lo < 0:
        c += [-1, lo, lo + 1, -m, -2]
    r = rng.random()
    if r < 0.7:
        v = rng.choice(c)
    else:
        v = rng.randrange(lo, hi + 1)
    return min(max(v, lo), hi)


def nbytes(bits):
    return (bits + 7) // 8


def byte_string(rng, bits, exact=False):
    n = nbytes(bits)
    r = rng.random()
    if exact or r < 0.55:
        ln = n
    elif r < 0.7:
        ln = max(0, n - 1 - rng.randrange(2))
    elif r < 0.8:
        ln = n + 1
    elif r < 0.9:
        ln = 0
    else:
        ln = rng.randrange(0, n + 3)
    q = rng.random()
    if q < 0.35:
        v = val(rng, bits)                      # representable
        full = list(v.to_bytes(max(n, 1), rng.choice(["big", "little"])))
        return (full + [0] * ln)[:ln]
    if q < 0.6:
        return [rng.choice([0, 0xff, 0x80, 1])] * ln
    return [rng.getrandbits(8) for _ in range(ln)]


DIG36 = "0123456789abcdefghijklmnopqrstuvwxyz"


def text(rng, bits, radix):
    r = rng.random()
    v = val(rng, bits) if r < 0.6 else rng.getrandbits(bits + 9)
    ds = ""
    rr = min(max(radix, 2), 36)
    while v:
        ds = DIG36[v % rr] + ds
        v //= rr
    ds = ds or "0"
    q = rng.random()
    if q < 0.1:
        ds = ds[:len(ds) // 2] + "_" + ds[len(ds) // 2:]
    elif q < 0.2:
        ds += rng.choice(["g", "z", "!", " ", "é", "Z"])
    elif q < 0.25:
        ds = ""
    elif q < 0.3:
        ds = ds.upper()
    return ds


def tokT(s):
    return C.tokY(list(s.encode()))


# ------------------------------------------------------------------ entry points
BIN2 = ["nt_checked_mul", "nt_checked_div", "nt_checked_rem", "nt_checked_div_euclid",
        "nt_checked_rem_euclid", "nt_div_euclid", "nt_rem_euclid", "nt_saturating_mul", "nt_wrapping_mul",
        "nt_overflowing_mul", "nt_pow", "ni_div_floor", "ni_mod_floor", "ni_gcd", "ni_lcm", "ni_div_ceil",
        "ni_div_rem", "ni_div_mod_floor", "ni_extended_gcd"]
DIVLIKE = {"nt_checked_div", "nt_checked_rem", "nt_checked_div_euclid", "nt_checked_rem_euclid", "nt_div_euclid",
           "nt_rem_euclid", "ni_div_floor", "ni_mod_floor", "ni_div_ceil", "ni_div_rem", "ni_div_mod_floor",
           "ni_is_multiple_of", "op_div", "op_rem"}
MULLIKE = {"nt_checked_mul", "nt_saturating_mul", "nt_wrapping_mul", "nt_overflowing_mul", "ni_lcm", "op_mul"}
def cases_for_width(rng, bits, reps, out):
    m = 1 << bits
    add = out.append
    u = lambda v: U(bits, v)  # noqa: E731

    def un(fn, extra=""):
        add("%s %d %s%s" % (fn, bits, extra, u(val(rng, bits))))

    for _ in range(reps):
        # ---- operators
        for sh in range(6):
            for fn in ("op_add", "op_sub"):
                a, b = pair_add(rng, bits)
                add("%s %d Z:%x %s %s" % (fn, bits, sh, u(a), u(b)))
            a, b = pair_mul(rng, bits)
            add("op_mul %d Z:%x %s %s" % (bits, sh, u(a), u(b)))
            for fn in ("op_div", "op_rem"):
                a, b = pair_div(rng, bits)
                add("%s %d Z:%x %s %s" % (fn, bits, sh, u(a), u(b)))
            for fn in ("op_bitor", "op_bitand", "op_bitxor", "bw_bitor", "bw_bitand", "bw_bitxor"):
                a, b = val(rng, bits), val(rng, bits)
                add("%s %d Z:%x %s %s" % (fn, bits, sh, u(a), u(b)))
            for fn in ("bw_shl", "bw_shr"):
                add("%s %d Z:%x %s Z:%x" % (fn, bits, sh, u(val(rng, bits)), amount(rng, bits)))
        sh = rng.randrange(6)
        for fn in ("op_div", "op_rem"):           # zero divisor: panic parity
            a, b = pair_div(rng, bits, zero=True)
            add("%s %d Z:%x %s %s" % (fn, bits, sh, u(a), u(b)))
        for sh in range(2):
            un("op_neg", "Z:%x " % sh)
            un("op_not", "Z:%x " % sh)
            un("bw_not", "Z:%x " % sh)
            un("zz_zeroize", "Z:%x " % sh)
            for n in (0, 1, 2, 5):
                xs = [C.to_limbs(val(rng, bits), C.nlimbs(bits)) for _ in range(n)]
                add("it_sum %d Z:%x %s" % (bits, sh, C.tokLL(xs)))
                xs = [C.to_limbs(rng.choice([val(rng, bits), 3 % m, rng.getrandbits(max(1, bits // 3)) | 1]) % m,
                                 C.nlimbs(bits)) for _ in range(n)]
                add("it_product %d Z:%x %s" % (bits, sh, C.tokLL(xs)))
        combos = [(ty, sh) for ty in range(10) for sh in range(4)]
        for (ty, sh) in rng.sample(combos, 14):
            for fn in ("op_shl", "op_shr"):
                add("%s %d Z:%x Z:%x %s %s" % (fn, bits, ty, sh, u(val(rng, bits)),
                                                 tokZs(shift_amount(rng, bits, ty))))
        for sh in range(4):
            for fn in ("op_shl_uint", "op_shr_uint"):
                k = rng.choice([amount(rng, bits) % m if bits else 0, val(rng, bits), (1 << 64) % m,
                                ((1 << 64) + 1) % m, (bits - 1) % m if bits else 0, bits % m])
                add("%s %d Z:%x %s %s" % (fn, bits, sh, u(val(rng, bits)), u(k)))
        # ---- Bits wrapper
        un("bw_reverse_bits")
        for k in range(4):
            un("bw_count", "Z:%x " % k)
            un("bw_bytes", "Z:%x " % k)
        for k in range(7):
            un("bw_ident", "Z:%x " % k)
        for fn in ("bw_checked_shl", "bw_checked_shr", "bw_overflowing_shl", "bw_overflowing_shr",
                   "bw_wrapping_shl", "bw_wrapping_shr", "bw_rotate_left", "bw_rotate_right", "bw_index"):
            add("%s %d %s Z:%x" % (fn, bits, u(val(rng, bits)), amount(rng, bits)))
        for fn in ("bw_try_from_be_slice", "bw_try_from_le_slice", "nt_from_le_bytes", "nt_from_be_bytes"):
            add("%s %d %s" % (fn, bits, C.tokY(byte_string(rng, bits))))
        for fn in ("bw_from_be_bytes", "bw_from_le_bytes"):
            add("%s %d %s" % (fn, bits, C.tokY(byte_string(rng, bits, exact=True))))
        radix = rng.choice([2, 8, 10, 16, 36, 3, 64, 65, 0, 1, 37])
        add("bw_from_str_radix %d Z:%x %s" % (bits, radix, tokT(text(rng, bits, radix))))
        radix = rng.choice([2, 8, 10, 16, 36, 7, 64, 65, 0, 1, 62])
        add("nt_from_str_radix %d Z:%x %s" % (bits, radix, tokT(text(rng, bits, radix))))
        pre, rdx = rng.choice([("", 10), ("0x", 16), ("0o", 8), ("0b", 2), ("0X", 16), ("0z", 10)])
        add("bw_from_str %d %s" % (bits, tokT(pre + text(rng, bits, rdx))))
        lb = [C.rand_limb(rng) for _ in range(C.nlimbs(bits))] if rng.random() < 0.5 \
            else C.to_limbs(val(rng, bits), C.nlimbs(bits))
        add("bw_from_limbs %d %s" % (bits, C.tokL(lb)))
        add("bw_consts %d" % bits)
        a, b = pair_add(rng, bits)
        add("bw_eq %d %s %s" % (bits, u(a), u(rng.choice([a, b]))))
        # ---- num-traits
        for k in range(4):
            add("nt_const %d Z:%x" % (bits, k))
        for fn in ("nt_is_zero", "nt_is_one"):
            add("%s %d %s" % (fn, bits, u(rng.choice([0, 1 % m, val(rng, bits)]))))
        for fn in ("nt_to_le_bytes", "nt_to_be_bytes", "nt_checked_neg", "nt_wrapping_neg", "nt_swap_bytes",
                   "nt_to_be", "nt_from_be", "nt_to_le", "nt_from_le", "nt_reverse_bits", "ni_is_even",
                   "ni_is_odd", "ni_inc", "ni_dec"):
            un(fn)
        # swap_bytes where the low byte does not fit the top byte of a ragged width
        add("nt_swap_bytes %d %s" % (bits, u(rng.choice([1 % m, 2 % m, 0x80 % m, 0xff % m, m - 1]))))
        for fn in ("nt_checked_add", "nt_checked_sub", "nt_wrapping_add", "nt_wrapping_sub",
                   "nt_overflowing_add", "nt_overflowing_sub"):
            a, b = pair_add(rng, bits)
            add("%s %d %s %s" % (fn, bits, u(a), u(b)))
        for k in range(2):
            for fn in ("nt_saturating_add", "nt_saturating_sub"):
                a, b = pair_add(rng, bits)
                add("%s %d Z:%x %s %s" % (fn, bits, k, u(a), u(b)))
        for fn in BIN2:
            if fn in DIVLIKE:
                a, b = pair_div(rng, bits, zero=rng.random() < 0.2)
            elif fn in MULLIKE:
                a, b = pair_mul(rng, bits)
            elif fn == "nt_pow":
                a, b = rng.choice([2 % m, 3 % m, val(rng, bits)]), rng.choice([0, 1 % m, 2 % m, bits % m, 7 % m])
            else:
                a, b = val(rng, bits), val(rng, bits)
            add("%s %d %s %s" % (fn, bits, u(a), u(b)))
        a, b = pair_div(rng, bits, zero=rng.random() < 0.3)
        if rng.random() < 0.4 and b:
            a = (b * rng.randrange(0, 5)) % m            # a true multiple
        add("ni_is_multiple_of %d %s %s" % (bits, u(a), u(b)))
        add("nt_inv %d %s" % (bits, u(val(rng, bits) | (1 if bits and rng.random() < 0.7 else 0))))
        for sh in range(2):
            a, b = pair_mul(rng, bits)
            add("nt_mul_add %d Z:%x %s %s %s" % (bits, sh, u(a), u(b), u(val(rng, bits))))
        for fn in ("nt_checked_shl", "nt_checked_shr", "nt_wrapping_shl", "nt_wrapping_shr", "nt_rotate_left",
                   "nt_rotate_right", "nt_signed_shl", "nt_signed_shr", "nt_unsigned_shl", "nt_unsigned_shr"):
            a = val(rng, bits)
            if fn == "nt_signed_shr" and bits and rng.random() < 0.6:
                a |= 1 << (bits - 1)
            add("%s %d %s Z:%x" % (fn, bits, u(a), amount(rng, bits, 1 << 32)))
        add("nt_pow_u32 %d %s Z:%x" % (bits, u(rng.choice([2 % m, 3 % m, val(rng, bits)])),
                                        rng.choice([0, 1, 2, 3, bits, 300, m % (1 << 32), (1 << 32) - 1, 17])))
        for ty in (10, 4, 11, 5):
            add("nt_to_prim %d Z:%x %s" % (bits, ty, u(rng.choice(
                [val(rng, bits), (1 << 63) % m, ((1 << 63) - 1) % m, ((1 << 64) - 1) % m, (1 << 64) % m,
                 ((1 << 127) - 1) % m, (1 << 127) % m, ((1 << 128) - 1) % m, (1 << 128) % m]))))
            add("nt_from_prim %d Z:%x %s" % (bits, ty, tokZs(prim_value(rng, bits, ty))))
        for ty in rng.sample(range(1, 13), 5):
            add("nt_numcast %d Z:%x %s" % (bits, ty, tokZs(prim_value(rng, bits, ty))))
        for k in range(6):
            un("nt_count", "Z:%x " % k)
        # ---- subtle
        add("ct_bit %d %s Z:%x" % (bits, u(val(rng, bits)), amount(rng, bits)))
        if bits:
            add("ct_bit %d %s Z:%x" % (bits, u(val(rng, bits)), rng.choice([0, bits - 1, rng.randrange(bits)])))
        for sh in range(2):
            a, b = pair_add(rng, bits)
            add("ct_select %d Z:%x %s %s B:%d" % (bits, sh, u(a), u(b), rng.randrange(2)))
        for fn in ("ct_eq", "ct_gt", "ct_lt"):
            a, b = pair_add(rng, bits)
            r = rng.random()
            if r < 0.25:
                b = a
            elif r < 0.5 and bits > 64:
                # same high limbs, different low limb and vice versa: the scan must go on / must stop
                b = a ^ (1 << rng.randrange(bits))
            add("%s %d %s %s" % (fn, bits, u(a), u(b)))
        if bits > 64:
            # the scan must stop at the first differing limb from the top: high limbs say one thing,
            # low limbs the opposite (a wrong `equal` update or a little-endian scan flips the answer)
            n = C.nlimbs(bits)
            la = [C.rand_limb(rng) for _ in range(n)]
            la[-1] &= C.mask(bits)
            lb = list(la)
            hi = rng.randrange(1, n)
            lo = rng.randrange(0, hi)
            la[hi], lb[hi] = sorted([la[hi] & C.mask(bits) if hi == n - 1 else la[hi],
                                     (la[hi] ^ (1 << rng.randrange(C.mask(bits).bit_length() if hi == n - 1 else 64)))
                                     & (C.mask(bits) if hi == n - 1 else C.B64 - 1)])
            x, y = sorted([la[lo], la[lo] ^ (1 << rng.randrange(64))])
            la[lo], lb[lo] = y, x                      # a < b by limb hi, a > b by limb lo
            for fn in ("ct_gt", "ct_lt", "ct_eq"):
                p, q = (la, lb) if rng.random() < 0.5 else (lb, la)
                add("%s %d %s %s" % (fn, bits, C.tokL(p), C.tokL(q)))
        add("ct_negate %d %s B:%d" % (bits, u(val(rng, bits)), rng.randrange(2)))


def corpus():
    out = []
    for bits in (0, 1, 8, 9, 63, 64, 65, 128, 256):
        m = 1 << bits
        mx = m - 1
        # panic parity: zero divisors through every shape
        for sh in range(6):
            out.append("op_div %d Z:%x %s %s" % (bits, sh, U(bits, mx), U(bits, 0)))
            out.append("op_rem %d Z:%x %s %s" % (bits, sh, U(bits, mx), U(bits, 0)))
        for fn in ("nt_div_euclid", "nt_rem_euclid", "ni_div_floor", "ni_mod_floor", "ni_div_rem", "ni_div_ceil",
                   "ni_div_mod_floor", "nt_checked_div", "nt_checked_rem", "ni_is_multiple_of", "ni_lcm", "ni_gcd"):
            out.append("%s %d %s %s" % (fn, bits, U(bits, mx), U(bits, 0)))
            out.append("%s %d %s %s" % (fn, bits, U(bits, 0), U(bits, 0)))
        out.append("ni_lcm %d %s %s" % (bits, U(bits, mx), U(bits, max(mx - 1, 0))))   # lcm overflows: unwrap
        out.append("ni_inc %d %s" % (bits, U(bits, mx)))
        out.append("ni_dec %d %s" % (bits, U(bits, 0)))
        out.append("nt_pow_u32 %d %s Z:%x" % (bits, U(bits, 2 % m), min(m, (1 << 32) - 1)))  # exponent does not fit
        for v in (1 % m, 2 % m, 0x80 % m, 0x100 % m, mx):
            out.append("nt_swap_bytes %d %s" % (bits, U(bits, v)))
        for idx in (0, bits - 1, bits, bits + 1, 64, (1 << 64) - 1):
            if idx >= 0:
                out.append("bw_index %d %s Z:%x" % (bits, U(bits, mx), idx))
                out.append("ct_bit %d %s Z:%x" % (bits, U(bits, mx), idx))
        out.append("nt_numcast %d Z:7 Z:-1" % bits)
        out.append("nt_numcast %d Z:5 Z:%x" % (bits, (1 << 128) - 1))
        out.append("nt_from_prim %d Z:a Z:-1" % bits)
        out.append("op_shl %d Z:6 Z:0 %s Z:-1" % (bits, U(bits, mx)))
        out.append("op_shr %d Z:9 Z:3 %s Z:-8000000000000000" % (bits, U(bits, mx)))
    # regression inputs of repaired defects that concern the facades (F2, F3, F4, F5)
    out.append("bw_overflowing_shl 65 L:0,1 Z:1")
    out.append("bw_checked_shl 128 L:0,1 Z:40")
    out.append("nt_checked_shl 65 L:0,1 Z:1")
    out.append("op_shl_uint 128 Z:0 L:1,0 L:0,1")
    out.append("op_shr_uint 128 Z:3 L:1,0 L:0,1")
    out.append("nt_from_prim 65 Z:5 Z:30000000000000005")
    out.append("nt_numcast 65 Z:5 Z:30000000000000005")
    out.append("bw_try_from_be_slice 60 Y:ffffffffffffffff")
    out.append("nt_from_be_bytes 60 Y:ffffffffffffffff")
    out.append("nt_from_le_bytes 60 Y:ffffffffffffffff")
    out.append("bw_from_str_radix 64 Z:40 Y:67")
    out += BIT_CT_REGRESSIONS
    return [ln for ln in out if ln not in SUSPECT]


def gen(rng, tier):
    widths = C.WIDTHS_QUICK if tier == "quick" else C.WIDTHS_QUICK + C.WIDTHS_MORE
    reps = 1 if tier == "quick" else 6
    out = []
    diff = _diff_lines()
    if diff:
        # the forwarding table changed: a correspondence break; hunt for a failing input
        if TABLE_DIFF_IS_ALARM:
            out += diff
        reps *= 3
    for bits in widths:
        cases_for_width(rng, bits, reps, out)
    return [ln for ln in out if ln not in SUSPECT]


def nontrivial(line):
    p = line.split()
    if p[1] == "0":
        return False
    for t in p[2:]:
        if t.startswith("LL:"):
            continue
        if t.startswith("L:") and any(x not in ("", "0", "1") for x in t[2:].split(",")):
            return True
        if t.startswith("Y:") and len(t) > 4:
            return True
        if t.startswith("Z:") and p[0] in ("nt_from_prim", "nt_numcast") and t[2:] not in ("0", "1"):
            return True
    return False


def known_class(finding, line):
    return False


if __name__ == "__main__":
    if "--write-table" in sys.argv:
        json.dump(extract_table(), open(TABLE, "w"), indent=1, sort_keys=True)
        print("wrote", TABLE)
    else:
        for d in table_diff():
            print(d)
