"""C04 part (b) — equality, hashing, ordering: case generator."""
from . import common as C
from .p_c04 import LEVEL, RULE, TRUSTED, ASSUMPTIONS, EXPLANATION  # so that `./check c04b` works stand-alone

PID = "C04"
BIN = "c04b"
RUNMOD = "RunC04b"
SUSPECT = []


def near(rng, bits, a):
    """a value related to a: equal, adjacent, differing in one limb / one bit only"""
    m = 1 << bits
    if bits == 0:
        return 0
    r = rng.random()
    if r < 0.25:
        return a
    if r < 0.40:
        return (a + rng.choice([-1, 1])) % m
    if r < 0.55:
        return a ^ (1 << rng.randrange(bits))              # one bit differs
    if r < 0.65:
        return a ^ (1 << (bits - 1))                       # top bit differs
    if r < 0.75:
        n = C.nlimbs(bits)
        l = C.to_limbs(a, n)
        i = rng.randrange(n)
        l[i] = C.rand_limb(rng)
        return C.from_limbs(l) % m                         # one limb replaced
    if r < 0.80:
        n = C.nlimbs(bits)
        l = C.to_limbs(a, n)
        l.reverse()
        return C.from_limbs(l) % m                         # limbs swapped end for end
    return C.rand_value(rng, bits)


def corpus():
    out = []
    for bits in (0, 1, 2, 63, 64, 65, 127, 128, 129, 256):
        m = 1 << bits
        vs = sorted({0, 1 % m, m - 1, m >> 1, (m - 1) >> 1, (1 << 64) % m, ((1 << 64) - 1) % m})
        for x in vs:
            for y in vs:
                out.append("cmp_ops %d %s %s" % (bits, C.tokU(bits, x), C.tokU(bits, y)))
        out.append("clamp %d %s %s %s" % (bits, C.tokU(bits, m >> 1), C.tokU(bits, 0), C.tokU(bits, m - 1)))
        out.append("clamp %d %s %s %s" % (bits, C.tokU(bits, 0), C.tokU(bits, m - 1), C.tokU(bits, 0)))
    return [x for x in out if x not in SUSPECT]


def gen(rng, tier):
    widths = C.WIDTHS_QUICK if tier == "quick" else C.WIDTHS_QUICK + C.WIDTHS_MORE
    reps = 40 if tier == "quick" else 300
    out = []
    for bits in widths:
        for _ in range(reps):
            a = C.rand_value(rng, bits)
            b = near(rng, bits, a)
            out.append("cmp_ops %d %s %s" % (bits, C.tokU(bits, a), C.tokU(bits, b)))
        for _ in range(reps // 3):
            a = C.rand_value(rng, bits)
            lo = near(rng, bits, a)
            hi = near(rng, bits, rng.choice([a, lo]))
            if rng.random() < 0.8 and lo > hi:
                lo, hi = hi, lo
            out.append("clamp %d %s %s %s" % (bits, C.tokU(bits, a), C.tokU(bits, lo), C.tokU(bits, hi)))
    return [x for x in out if x not in SUSPECT]


def nontrivial(line):
    p = line.split()
    if p[1] == "0":
        return False
    return any(t.startswith("L:") and any(x not in ("", "0", "1") for x in t[2:].split(",")) for t in p[2:])


def known_class(finding, line):
    return False
