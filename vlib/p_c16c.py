"""C16, part C — num-bigint, primitive-types, bytemuck, postgres (ToSql + round trips), ark-ff 0.3/0.4:
encoders emit the reference representation and round-trip.  Part module (umbrella: p_c16.PARTS)."""
from . import common as C
from . import c16c_ref as R

BIN = "c16c"
RUNMOD = "RunC16C"
FEATURES = ["codecs_c"]
RULE = ("per width: boundary values of every postgres column type (i16/i32/u32/i64 max +-1, 2^63, MONEY "
        "limit +-1, powers of 10000 +-1 for NUMERIC trailing zeros, float mantissa boundaries) and "
        "boundary-biased random values x all 17 accepted column types + 2 unaccepted ones for to_sql and the "
        "to_sql/from_sql round trip; BigUint/BigInt by value and by reference; ark-ff 0.4 BigInt<LIMBS> at every "
        "width incl. out-of-range limb arrays at widths with BITS%64 != 0 (documented panic); fixed-width "
        "integrations (primitive-types U*/H*, bytemuck Pod 64k, ark-ff 0.3 BigInteger*, Fp over three prime "
        "fields) at all their widths with values around the modulus")
SUSPECT = []

LEVEL = "proof"
TRUSTED = ["Coq 8.16.1 kernel + vm_compute",
           "hand-written Gallina model coq/Model/CodecC.v (ruint's glue) on top of Model/{Bytes,Conv,BaseConv,Str,Fmt,"
           "Float}.v; reference formats coq/Spec/FmtC.v (positional notation = C09's vocabulary, float neighbours = C18's)",
           "third-party pieces modelled from their documented representation and validated end-to-end against the "
           "real crates by the correspondence run: num-bigint (BigUint/BigInt = the integer, to_u64_digits, "
           "from_bytes_le), primitive-types U*/H* (limb / byte arrays), bytemuck (Pod casts = reinterpretation of the "
           "limb array, little endian), ark-ff 0.3/0.4 (BigInteger*/BigInt<N> = limb arrays; Fp: from_repr/from_bigint "
           "= Some iff < modulus, into_repr = the limbs), bytes::BytesMut put_* (big endian append), "
           "postgres_types::Type (a code 0..18), core::fmt / core::str::from_utf8 (as in C09)",
           "correspondence harness harness/src/bin/c16c.rs (feature codecs_c; own prime fields 2^61-1, BN254 Fq, "
           "BLS12-381 Fq defined in the harness for the Fp conversions) + vlib (python) translation of tokens"]
ASSUMPTIONS = ["target_endian = little, usize = 64 bits",
               "postgres wire formats as documented in Spec/FmtC.v (numeric.c / varbit.c layouts); no live server",
               "float column types: the encoded pattern is one of the two neighbours of the value (C18), no exact "
               "round trip is claimed",
               "`From<foreign fixed-width integer> for Uint` panics on a value >= 2^BITS (ark-ff 0.4 BigInt<LIMBS> and "
               "Fp at widths with BITS % 64 != 0): the crate-wide convention of Uint::from, part of spec"]
EXPLANATION = ("Theorem C16C_all: forall wf call of RunC16C, spec call (run call) = true, for all BITS >= 0 (where the "
               "integration exists) and all canonical values: encoders emit the reference representation, fail "
               "(error, never panic) exactly when the value does not fit the column type, conversions from/to foreign "
               "fixed-width types succeed exactly by range, decode(encode a) = a; proved by composing the byte / "
               "digit / parser / formatter theorems of C07-C09/C18 with new lemmas for the BIT/VARBIT shift loops and "
               "NUMERIC; model and spec are evaluated on the crate's actual outputs inside coqc")


def tokU(bits, v):
    return C.tokU(bits, v)


def rand_limbs_line(rng, bits, in_range):
    n = C.nlimbs(bits)
    if in_range or bits % 64 == 0:
        return C.to_limbs(C.rand_value(rng, bits), n)
    l = C.to_limbs(C.rand_value(rng, 64 * n), n)
    if rng.random() < 0.5:
        l[-1] |= 1 << rng.randrange(bits % 64, 64)
    return l


def fixed_width_cases(rng, reps):
    out = []
    for bits in R.PT_WIDTHS:
        for v in R.values(rng, bits, reps):
            out += ["pt_to %d %s" % (bits, tokU(bits, v)), "pt_rt %d %s" % (bits, tokU(bits, v))]
    for bits in R.PTH_WIDTHS:
        for v in R.values(rng, bits, reps):
            out += ["pth_to %d %s" % (bits, tokU(bits, v)), "pth_rt %d %s" % (bits, tokU(bits, v))]
    for bits in R.POD_WIDTHS:
        for v in R.values(rng, bits, max(2, reps // 2)):
            for f in ("bm_bytes_of", "bm_cast_to", "bm_rt"):
                out.append("%s %d %s" % (f, bits, tokU(bits, v)))
    for bits in R.ARK03_WIDTHS:
        for v in R.values(rng, bits, reps):
            k = rng.randrange(2)
            out += ["ark03_to %d Z:%x %s" % (bits, k, tokU(bits, v)),
                    "ark03_from %d Z:%x %s" % (bits, 1 - k, tokU(bits, v)),
                    "ark03_rt %d Z:%x %s" % (bits, k, tokU(bits, v))]
    for (bits, fld) in R.ARK03_FIELDS:
        out += field_cases(rng, "ark03", bits, fld, reps)
    return out


def field_cases(rng, pre, bits, fld, reps):
    _, p = R.FIELDS[fld]
    m = 1 << bits
    out = []
    vs = [0, 1, p - 1, p, p + 1, m - 1, p >> 1] + R.values(rng, bits, reps) + [rng.randrange(p) for _ in range(reps)]
    for v in vs:
        k = rng.randrange(2)
        if 0 <= v < m:
            out.append("%s_fp_try_from %d Z:%x Z:%x %s" % (pre, bits, fld, k, tokU(bits, v)))
            out.append("%s_fp_rt %d Z:%x Z:%x %s" % (pre, bits, fld, 1 - k, tokU(bits, v)))
    n = R.FIELDS[fld][0]
    for v in [0, 1, p - 1, p >> 1, min(p - 1, m - 1), min(p - 1, m), min(p - 1, m + 1)] + [rng.randrange(p) for _ in range(reps)]:
        out.append("%s_fp_into %d Z:%x Z:%x %s" % (pre, bits, fld, rng.randrange(2), C.tokL(C.to_limbs(v, n))))
    return out


def corpus():
    out = []
    # the crate's own literal (postgres.rs test_basic)
    n = "L:a8ec92344438aaf4,9819ebdbd1faaab1,573b1a7064c19c1a,c85ef7d79691fe79"
    for ty in R.ALL_TYPES:
        out.append("pg_to_sql 256 Z:%x %s" % (ty, n))
        out.append("pg_rt 256 Z:%x %s" % (ty, n))
    # ark-ff 0.4 From<BigInt<LIMBS>> at a width with a partial top limb: documented panic of `from`
    out += ["ark04_from 63 Z:0 L:ffffffffffffffff", "ark04_from 63 Z:1 L:8000000000000000",
            "ark04_from 63 Z:0 L:7fffffffffffffff", "ark04_from 250 Z:0 L:0,0,0,400000000000000",
            "ark04_fp_into 250 Z:1 Z:0 L:0,0,0,1000000000000000",
            "ark04_fp_into 256 Z:1 Z:0 L:0,0,0,1000000000000000"]
    # column-type limits
    for (ty, lim) in ((R.BOOL, 1), (R.INT2, (1 << 15) - 1), (R.INT4, (1 << 31) - 1), (R.OID, (1 << 32) - 1),
                      (R.INT8, (1 << 63) - 1), (R.MONEY, R.MONEY_MAX)):
        for bits in (64, 65, 256):
            for v in (lim - 1, lim, lim + 1):
                if 0 <= v < (1 << bits):
                    out.append("pg_to_sql %d Z:%x %s" % (bits, ty, tokU(bits, v)))
                    out.append("pg_rt %d Z:%x %s" % (bits, ty, tokU(bits, v)))
    # BIT / VARBIT at widths that are not a multiple of 8, empty varbit
    for bits in (0, 1, 7, 9, 63, 65, 250):
        for ty in (R.BIT, R.VARBIT):
            for v in {0, 1, (1 << bits) - 1, (1 << bits) >> 1, 0x55 % (1 << bits) if bits else 0}:
                if 0 <= v < max(1, 1 << bits):
                    out.append("pg_to_sql %d Z:%x %s" % (bits, ty, tokU(bits, v)))
                    out.append("pg_rt %d Z:%x %s" % (bits, ty, tokU(bits, v)))
    return [ln for ln in out if ln not in SUSPECT]


def gen(rng, tier):
    widths = C.WIDTHS_QUICK if tier == "quick" else C.WIDTHS_QUICK + C.WIDTHS_MORE
    reps = 4 if tier == "quick" else 24
    out = []
    for bits in widths:
        out.append("bm_zeroed %d" % bits)
        for ty in R.ALL_TYPES:
            out.append("pg_accepts %d Z:%x" % (bits, ty))
        for v in R.values(rng, bits, reps):
            k = rng.randrange(4)
            out.append("bigint_to %d Z:%x %s" % (bits, k, tokU(bits, v)))
            out.append("bigint_to %d Z:%x %s" % (bits, (k + 2) % 4, tokU(bits, v)))
            out.append("bigint_rt %d Z:%x %s" % (bits, rng.randrange(4), tokU(bits, v)))
            out.append("ark04_to %d Z:%x %s" % (bits, k % 2, tokU(bits, v)))
            out.append("ark04_rt %d Z:%x %s" % (bits, k % 2, tokU(bits, v)))
        for i in range(reps):
            out.append("ark04_from %d Z:%x %s" % (bits, i % 2, C.tokL(rand_limbs_line(rng, bits, i < reps // 2))))
        for ty in R.ALL_TYPES:
            for v in R.values(rng, bits, reps):
                out.append("pg_to_sql %d Z:%x %s" % (bits, ty, tokU(bits, v)))
            for v in R.values(rng, bits, max(2, reps // 2)):
                out.append("pg_rt %d Z:%x %s" % (bits, ty, tokU(bits, v)))
        # ark-ff 0.4 fields at the widths sharing the field's limb count
        for fld, (n, p) in R.FIELDS.items():
            if bits > 0 and C.nlimbs(bits) == n and (fld != 1 or bits in (250, 255, 256)) and (fld != 2 or bits == 384):
                out += field_cases(rng, "ark04", bits, fld, reps)
    out += fixed_width_cases(rng, reps)
    if tier != "quick":
        out += field_cases(rng, "ark04", 384, 2, reps)
    return [ln for ln in out if ln not in SUSPECT]


nontrivial = R.nontrivial


def known_class(finding, line):
    return False
