"""C14 — limb-slice division kernels: case generator and metadata.

Directed generation: vlib/c14_ref.py is a branch-tracing transliteration of the kernels; it
is used here only to *select inputs* that take the rare branches (add-back, forced digit
n21 == d, second corrections of div_2x1/div_3x2/reciprocal_2).  Expected results never come
from it: they come from the Coq model and the Coq spec."""
import os
import random
import re

from . import common as C
from . import c14_ref as R

PID = "C14"
BIN = "c14"
RUNMOD = "RunC14"
LEVEL = "proof"
RULE = ("slice lengths 1..12 x 1..12 (numerator, divisor independently) plus nlimbs(BITS) at every "
        "harness width; divisors: normalised / unnormalised top limb, 1, 2^k, all-ones, leading-zero "
        "padding; numerators: boundary-biased limbs, Q*D+R (R in {0,1,D-1,random}), D*B^k-eps and "
        "Q*D-eps (add-back), top limbs copied from the divisor (forced digit n21 == d); every one of "
        "the 256 reciprocal table rows at both row ends; directed search (branch-tracing "
        "transliteration) guarantees every correction branch is taken; precondition violations are "
        "included and must panic in the debug profile; non-trivial = some operand limb/scalar not in "
        "{0,1}; distinct = distinct case lines")
TRUSTED = ["Coq 8.16.1 kernel + vm_compute",
           "hand-written Gallina model coq/Model/{Base,Word,Limbs,DivRecip,DivSmall,DivKnuth,Div}.v",
           "correspondence harness harness/src/bin/c14.rs + vlib (python) translation of tokens",
           "rustc/LLVM u64/u128 semantics"]
ASSUMPTIONS = ["u64/u128 wrapping and checked arithmetic modelled as Z arithmetic mod 2^64 / 2^128",
               "slice lengths fit usize",
               "a violated debug_assert / assume! is unconstrained in the release profile"]
EXPLANATION = ("Theorem C14_holds: forall wf call, spec call (run call) = true; the correspondence run "
               "evaluates model and spec on the implementation's actual outputs inside coqc")

B = 1 << 64
BB = 1 << 128
BBB = 1 << 192
M64 = B - 1

# Finding D1 (repaired in /repo, commit 233680d): div_nxm_normalized documented weaker conditions
# of use than the algorithm needs.  The former witnesses are kept as regressions: they now violate
# the (new) debug_asserts -> the debug profile must panic, the model says DebugPanic.
D1_REGRESSIONS = [
    # top limbs of the numerator equal the divisor (used to return remainder == divisor silently)
    "div_nxm_normalized 192 L:0,0,8000000000000000 L:0,8000000000000000",
    # numerator.len() == divisor.len() (`numerator.len() - n - 1` used to underflow)
    "div_nxm_normalized 128 L:1,8000000000000000 L:0,8000000000000000",
    # top limbs of the numerator above the divisor
    "div_nxm_normalized 192 L:5,7,8000000000000009 L:0,8000000000000000",
]


def ev(l):
    return C.from_limbs(l)


def tl(v, n):
    return C.to_limbs(v, n)


def L(l):
    return C.tokL(l)


def Z(z):
    return C.tokZ(z)


# ------------------------------------------------------------------ operand families
def rand_divisor(rng, ld, allow_pad=False):
    """limb list of length ld; last limb non-zero unless allow_pad adds zero padding"""
    pad = 0
    if allow_pad and ld > 1 and rng.random() < 0.3:
        pad = rng.randrange(1, min(ld, 4))
    k = ld - pad
    d = [C.rand_limb(rng) for _ in range(k)]
    r = rng.random()
    if r < 0.30:
        d[-1] |= 1 << 63                                   # normalised
    elif r < 0.55:
        d[-1] = rng.getrandbits(rng.randrange(1, 64)) or 1  # unnormalised, any shift
    elif r < 0.63:
        d[-1] = 1
    elif r < 0.70:
        d[-1] = M64
    elif r < 0.76:
        d = [0] * (k - 1) + [1 << rng.randrange(64)]        # 2^k
    elif r < 0.82:
        d = [M64] * k                                       # all ones
    elif r < 0.86:
        d = [1] + [0] * (k - 1) if k == 1 else [C.rand_limb(rng)] + [0] * (k - 2) + [1]
    if d[-1] == 0:
        d[-1] = 1
    return d + [0] * pad


def rand_numerator(rng, ln, d):
    """numerator of ln limbs aimed at divisor limbs d (rare branches of the kernels)"""
    if ln == 0:
        return []
    D = ev(d)
    ld = len(d)
    while ld > 0 and d[ld - 1] == 0:
        ld -= 1
    top = B ** ln
    for _ in range(8):
        f = rng.randrange(7)
        if f == 0:
            n = [C.rand_limb(rng) for _ in range(ln)]
            if rng.random() < 0.3:
                z = rng.randrange(0, ln + 1)
                n = n[:ln - z] + [0] * z                    # leading-zero padding
            return n
        if f == 1:
            N = rng.getrandbits(64 * ln)
        elif f == 2 and D:
            Q = rng.getrandbits(max(1, 64 * ln - D.bit_length() + rng.randrange(2)))
            N = Q * D - rng.randrange(1, 3)
        elif f == 3 and D:
            k = rng.randrange(0, max(1, ln - ld + 1))
            N = D * (B ** k) - rng.randrange(1, 1 << rng.randrange(1, 65))
        elif f == 4 and D:
            Q = ev([C.rand_limb(rng) for _ in range(max(1, ln - ld + 1))])
            N = Q * D + rng.choice([0, 1, D - 1, D - 2, rng.randrange(D)])
        elif f == 5 and D and ln >= ld:
            n = [C.rand_limb(rng) for _ in range(ln)]
            k = rng.randrange(0, ln - ld + 1)
            t = rng.randrange(1, ld + 1)
            for i in range(t):
                n[ld - 1 - i + k] = d[ld - 1 - i]           # top limbs equal the divisor's
            for i in range(ld + k, ln):
                n[i] = 0
            return n
        elif f == 6 and D:
            N = D * rng.choice([1, 2, B - 1, B, B + 1]) + rng.choice([-1, 0, 1])
        else:
            continue
        if 0 <= N < top:
            return tl(N, ln)
    return [C.rand_limb(rng) for _ in range(ln)]


def rand_norm64(rng):
    r = rng.random()
    if r < 0.15:
        return rng.choice([1 << 63, M64, (1 << 63) + 1, M64 - 1, (1 << 63) + (1 << 32)])
    if r < 0.3:
        row = rng.randrange(256)
        return ((256 + row) << 55) + rng.choice([0, 1, (1 << 55) - 1, (1 << 55) - 2, rng.getrandbits(55)])
    if r < 0.5:
        return C.rand_limb(rng) | (1 << 63)
    return rng.getrandbits(64) | (1 << 63)


def rand_norm128(rng):
    r = rng.random()
    hi = rand_norm64(rng)
    if r < 0.1:
        return rng.choice([1 << 127, BB - 1, (1 << 127) + 1, BB - 2])
    if r < 0.5:
        return (hi << 64) | C.rand_limb(rng)
    return (hi << 64) | rng.getrandbits(64)


def recip(d):
    return (BB - 1) // d - B


def recip2(d):
    return (BBB - 1) // d - B


def u_for_2x1(rng, d):
    r = rng.random()
    if r < 0.3:
        return (d - 1) * B + B - 1 - rng.randrange(4)
    if r < 0.5:
        return rng.randrange(d) * B + C.rand_limb(rng)
    if r < 0.7:
        q = C.rand_limb(rng)
        return min(q * d + rng.choice([0, 1, d - 1, rng.randrange(d)]), d * B - 1)
    return rng.randrange(d * B)


def u_for_3x2(rng, d):
    r = rng.random()
    if r < 0.2:
        return d * B - 1 - rng.randrange(4)
    if r < 0.5:
        q = C.rand_limb(rng)
        return min(q * d + rng.choice([0, 1, d - 1, rng.randrange(d)]), d * B - 1)
    if r < 0.7 and d & M64:
        # u21.high() == d.high()
        return ((d >> 64) << 128) + rng.getrandbits(128) % ((d & M64) * B)
    return rng.randrange(d * B)


# ------------------------------------------------------------------ case lines
def c_div(bits, n, d):
    return "div %d %s %s" % (bits, L(n), L(d))


def nxm_norm_ok(n, d):
    """the documented conditions of use of div_nxm_normalized hold"""
    return (len(d) >= 2 and len(n) > len(d) and d[-1] >= (1 << 63)
            and ev(n[len(n) - len(d):]) < ev(d))


def slice_cases(rng, bits, ln, ld, out, reps=1):
    """all slice entry points on the shape (ln, ld)"""
    for _ in range(reps):
        d = rand_divisor(rng, ld, allow_pad=True)
        out.append(c_div(bits, rand_numerator(rng, ln, d), d))
    if ld >= 3 and ln >= ld:
        for _ in range(reps):
            d = rand_divisor(rng, ld)
            out.append("div_nxm %d %s %s" % (bits, L(rand_numerator(rng, ln, d)), L(d)))
    if ld >= 2 and ln > ld:
        for _ in range(reps):
            d = rand_divisor(rng, ld)
            d[-1] |= 1 << 63
            n = rand_numerator(rng, ln, d)
            if not nxm_norm_ok(n, d) and rng.random() < 0.85:
                # make the top limbs smaller than the divisor: clear the top limb
                # (the rest keeps the precondition violated: debug_assert must fire)
                n[-1] = 0
            out.append("div_nxm_normalized %d %s %s" % (bits, L(n), L(d)))


def small_cases(rng, bits, ln, out):
    """div_nx1 / div_nx2 and normalised variants on a numerator of ln limbs"""
    if ln == 0:
        out.append("div_nx1_normalized %d L: %s" % (bits, Z(rand_norm64(rng))))
        out.append("div_nx2_normalized %d L: %s" % (bits, Z(rand_norm128(rng))))
        return
    d1 = rand_divisor(rng, 1)
    n = rand_numerator(rng, ln, d1)
    if n[-1] == 0:
        n[-1] = 1 + rng.getrandbits(rng.randrange(1, 64))
    out.append("div_nx1 %d %s %s" % (bits, L(n), Z(d1[0])))
    dn = rand_norm64(rng)
    out.append("div_nx1_normalized %d %s %s" % (bits, L(rand_numerator(rng, ln, [dn])), Z(dn)))
    d2 = rand_divisor(rng, 2)
    n = rand_numerator(rng, ln, d2)
    if n[-1] == 0:
        n[-1] = 1 + rng.getrandbits(rng.randrange(1, 64))
    out.append("div_nx2 %d %s %s" % (bits, L(n), Z(ev(d2))))
    dn = rand_norm128(rng)
    out.append("div_nx2_normalized %d %s %s" % (bits, L(rand_numerator(rng, ln, tl(dn, 2))), Z(dn)))


def scalar_cases(rng, bits, out):
    d = rand_norm64(rng)
    out.append("reciprocal %d %s" % (bits, Z(d)))
    out.append("div_2x1 %d %s %s %s" % (bits, Z(u_for_2x1(rng, d)), Z(d), Z(recip(d))))
    d = rand_norm128(rng)
    out.append("reciprocal_2 %d %s" % (bits, Z(d)))
    u = u_for_3x2(rng, d)
    out.append("div_3x2 %d %s %s %s %s" % (bits, Z(u >> 64), Z(u & M64), Z(d), Z(recip2(d))))


def ref_tag(n21, n0, d):
    """branch of the (repaired) div_3x2_ref taken by a case, and the quotient it returns"""
    n2, n1, d1, d0 = n21 >> 64, n21 & M64, d >> 64, d & M64
    if n2 == d1:
        neg = ((d0 << 64) - ((n1 << 64) | n0)) % BB
        return ("ref_eq_2", B - 2) if neg > d else ("ref_eq_1", B - 1)
    q, r = n21 // d1, n21 % d1
    if q * d0 > ((r << 64) | n0):
        q -= 1
        r += d1
        if r >= B:
            return ("ref_c1_ovf", q)
        if q * d0 > ((r << 64) | n0):
            return ("ref_c2", q - 1)
        return ("ref_c1", q)
    return ("ref_c0", q)


REF_TAGS = ["ref_eq_1", "ref_eq_2", "ref_c0", "ref_c1", "ref_c1_ovf", "ref_c2"]


def ref_operands(rng):
    """(n21, n0, d) within the conditions of use of div_3x2_ref, biased towards the correction
    branches (divisor just above 2^127 with a large low word, quotient estimate 1 or 2 too large)"""
    d1 = rng.choice([1 << 63, (1 << 63) + 1, (1 << 63) + rng.getrandbits(20), M64, M64 - 1,
                     rng.getrandbits(64) | (1 << 63)])
    d0 = rng.choice([0, 1, M64, M64 - 1, rng.getrandbits(64), rng.getrandbits(64)])
    d = (d1 << 64) | d0
    m = rng.random()
    if m < 0.3:
        q = rng.choice([0, 1, 2, M64, M64 - 1, rng.getrandbits(64), rng.getrandbits(32)])
        N = min(q * d + rng.choice([0, 1, d - 1, rng.randrange(d)]), d * B - 1)
    elif m < 0.5 and d0:
        N = (d1 << 128) + rng.randrange(d0 * B)          # n21.high() == d.high()
    elif m < 0.7:
        q = rng.choice([M64, M64 - 1, rng.getrandbits(64) | (1 << 63)])
        n21 = min(q * d1 + rng.choice([0, 1, 2, rng.getrandbits(10)]), d - 1)
        N = (n21 << 64) | rng.choice([0, 1, M64, rng.getrandbits(64)])
    else:
        N = rng.randrange(d * B)
    return N >> 64, N & M64, d


def ref_cases(rng, bits, out):
    """the reference kernels reciprocal_ref / div_2x1_ref / div_3x2_ref"""
    d = rand_norm64(rng)
    out.append("reciprocal_ref %d %s" % (bits, Z(d)))
    out.append("div_2x1_ref %d %s %s" % (bits, Z(u_for_2x1(rng, d)), Z(d)))
    n21, n0, d2 = ref_operands(rng)
    out.append("div_3x2_ref %d %s %s %s" % (bits, Z(n21), Z(n0), Z(d2)))


def ref_directed():
    """at least four cases for every branch of div_3x2_ref (fixed seed; asserts reachability)"""
    rng = random.Random(0x3232)
    found = {t: [] for t in REF_TAGS}
    for _ in range(4000):
        n21, n0, d = ref_operands(rng)
        t, q = ref_tag(n21, n0, d)
        if len(found[t]) < 4:
            found[t].append("div_3x2_ref 128 %s %s %s" % (Z(n21), Z(n0), Z(d)))
        if all(len(v) >= 4 for v in found.values()):
            break
    missing = [t for t, v in found.items() if not v]
    assert not missing, "div_3x2_ref branches not reached by the directed generator: %s" % missing
    return [l for t in REF_TAGS for l in found[t]]


def violations(rng, bits, out):
    """documented preconditions violated: the debug profile must panic (model: DebugPanic)"""
    dn, un = rand_norm64(rng), rng.getrandbits(63)
    out.append("reciprocal %d %s" % (bits, Z(un)))
    out.append("reciprocal_2 %d %s" % (bits, Z(rng.getrandbits(127))))
    out.append("div_2x1 %d %s %s %s" % (bits, Z(dn * B + 5), Z(dn), Z(recip(dn))))      # u >> 64 == d
    out.append("div_2x1 %d %s %s %s" % (bits, Z(5), Z(dn), Z((recip(dn) + 1) % B)))     # wrong v
    d2 = rand_norm128(rng)
    out.append("div_3x2 %d %s %s %s %s" % (bits, Z(d2), Z(0), Z(d2), Z(recip2(d2))))    # u21 == d
    out.append("div_3x2 %d %s %s %s %s" % (bits, Z(1), Z(0), Z(d2), Z((recip2(d2) + 1) % B)))
    out.append("div_nx1 %d L:5,0 %s" % (bits, Z(dn)))                                    # top limb 0
    out.append("div_nx1 %d L:5,1 Z:0" % bits)                                            # d == 0
    out.append("div_nx1 %d L: %s" % (bits, Z(dn)))                                       # empty
    out.append("div_nx1_normalized %d L:5,1 %s" % (bits, Z(un)))
    out.append("div_nx2 %d L:5,1 %s" % (bits, Z(rng.getrandbits(64))))                   # d < 2^64
    out.append("div_nx2 %d L:5,0 %s" % (bits, Z(d2)))
    out.append("div_nx2_normalized %d L:5,1 %s" % (bits, Z(rng.getrandbits(127))))
    out.append("div_nxm %d L:1,2,3 L:1,2" % bits)                                        # divisor < 3 limbs
    out.append("div_nxm %d L:1,2,3,4 L:1,2,0" % bits)                                    # top limb 0
    out.append("div_nxm %d L:1,2 L:1,2,3" % bits)                                        # numerator shorter
    out.append("div_nxm_normalized %d L:1,2,3 L:1,2" % bits)                             # not normalised
    out.append("div_nxm_normalized %d L:1,2,3 L:8000000000000000" % bits)                # divisor 1 limb
    out.append("div_nxm_normalized %d L:1 L:1,8000000000000000" % bits)                  # numerator shorter
    out.append("div %d L:1,2,3 L:0,0" % bits)                                            # zero divisor: Panic
    out.append("div %d L: L:" % bits)
    out.append("reciprocal_ref %d %s" % (bits, Z(un)))                                   # not normalised
    out.append("div_2x1_ref %d %s %s" % (bits, Z(dn * B + 5), Z(dn)))                    # u >> 64 == d
    out.append("div_2x1_ref %d %s %s" % (bits, Z(5), Z(un | 1)))                         # d < 2^63
    out.append("div_3x2_ref %d %s %s %s" % (bits, Z(d2), Z(0), Z(d2)))                   # n21 == d
    out.append("div_3x2_ref %d %s %s %s" % (bits, Z(1), Z(0), Z(rng.getrandbits(127))))  # d < 2^127


# ------------------------------------------------------------------ directed search
ALL_TAGS = ["r2_a1", "r2_a2", "r2_b1", "r2_b2", "d21_dec", "d21_inc", "d32_dec", "d32_inc",
            "nxm_q0", "nxm_addback", "nxm_addback_s0", "nxm_ovf", "nxm_ovf_s0", "nrm_ovf",
            "nrm_addback"]


def trace_line(line):
    """branch tags taken by a case line according to the tracing transliteration"""
    p = line.split()
    f = p[0]
    a = p[2:]
    tr = set()

    def lim(t):
        s = t[2:]
        return [int(x, 16) for x in s.split(",")] if s else []

    def z(t):
        return int(t[2:], 16)
    try:
        if f == "div":
            R.div(lim(a[0]), lim(a[1]), tr)
        elif f == "div_nxm":
            R.div_nxm(lim(a[0]), lim(a[1]), tr)
        elif f == "div_nxm_normalized":
            R.div_nxm_normalized(lim(a[0]), lim(a[1]), tr)
        elif f == "div_nx1":
            R.div_nx1(lim(a[0]), z(a[1]), tr)
        elif f == "div_nx2":
            R.div_nx2(lim(a[0]), z(a[1]), tr)
        elif f == "div_nx1_normalized":
            R.div_nx1([1] if not lim(a[0]) else lim(a[0])[:-1] + [lim(a[0])[-1] or 1], z(a[1]), tr)
        elif f == "div_nx2_normalized":
            pass
        elif f == "div_2x1":
            R.div_2x1(z(a[0]), z(a[1]), z(a[2]), tr)
        elif f == "div_3x2":
            R.div_3x2(z(a[0]), z(a[1]), z(a[2]), z(a[3]), tr)
        elif f == "reciprocal_2":
            R.reciprocal_2(z(a[0]), tr)
    except (R.Pre, IndexError, AssertionError):
        pass
    return tr


def directed():
    """for every (entry point, reachable branch tag): inputs that take it, found by search with
    a fixed seed.  Raises if a tag cannot be reached (the generator would have lost coverage)."""
    rng = random.Random(0xC14)
    want = {
        "div": ["d21_dec", "d21_inc", "d32_dec", "d32_inc", "nxm_q0", "nxm_addback",
                "nxm_addback_s0", "nxm_ovf", "nxm_ovf_s0", "r2_a1", "r2_a2", "r2_b1", "r2_b2"],
        "div_nxm": ["d32_dec", "d32_inc", "nxm_q0", "nxm_addback", "nxm_addback_s0", "nxm_ovf",
                    "nxm_ovf_s0"],
        "div_nxm_normalized": ["d32_dec", "d32_inc", "nrm_ovf", "nrm_addback"],
        "div_nx1": ["d21_dec", "d21_inc"],
        "div_nx2": ["d32_dec", "d32_inc"],
        "div_2x1": ["d21_dec", "d21_inc"],
        "div_3x2": ["d32_dec", "d32_inc"],
        "reciprocal_2": ["r2_a1", "r2_a2", "r2_b1", "r2_b2"],
    }
    per = 6
    got = {(f, t): [] for f in want for t in want[f]}
    for _ in range(400):
        batch = []
        ld = rng.randrange(1, 9)
        ln = rng.randrange(max(1, ld - 1), 13)
        slice_cases(rng, 64 * ln, ln, ld, batch)
        small_cases(rng, 64 * ln, ln, batch)
        scalar_cases(rng, 64, batch)
        for ln_ in batch:
            f = ln_.split()[0]
            if f not in want:
                continue
            for t in trace_line(ln_):
                k = (f, t)
                if k in got and len(got[k]) < per:
                    got[k].append(ln_)
        if all(len(v) >= per for v in got.values()):
            break
    missing = [k for k, v in got.items() if not v]
    if missing:
        raise RuntimeError("directed generation lost branches: %s" % missing)
    out = []
    for v in got.values():
        out += v
    return out


def _table(path, pat):
    try:
        m = re.search(pat, open(path).read(), re.S)
        if not m:
            return None
        body = re.sub(r"//[^\n]*", "", m.group(1))
        return [int(x.replace("_", ""), 0) for x in re.findall(r"0[xX][0-9a-fA-F_]+|0[bB][01_]+|0[oO][0-7_]+|\d[\d_]*", body)]
    except OSError:
        return None


def table_directed(samples=50000):
    """Ties the 256-entry reciprocal table of the model to the one in the source on every run:
    rows whose entry differs are searched (impl vs the exact formula) for failing divisors, which
    are returned as ordinary case lines so that the verdict comes from the Coq evaluation."""
    src = _table(os.path.join(C.REPO, "src/algorithms/div/reciprocal.rs"),
                 r"static TABLE: \[u16; 256\] = \[(.*?)\];")
    mdl = _table(os.path.join(C.COQ, "Model", "DivRecip.v"), r"Definition RECIP_TABLE : list Z := \[(.*?)\]\.")
    if not src or not mdl or len(src) != 256 or len(mdl) != 256:
        return []
    rows = [i for i in range(256) if src[i] != mdl[i]]
    out = []
    exe = os.path.join(C.TARGET, "release", BIN)
    if rows:
        C.cargo_build([BIN])      # always: another property's check may call this with a stale c14 bin
    for i in rows[:8]:
        lo, hi = (256 + i) << 55, (257 + i) << 55
        rng = random.Random(1000 + i)
        ds = [lo, hi - 1] + [rng.randrange(lo, hi) for _ in range(samples)]
        lines = ["reciprocal 64 %s" % Z(d) for d in ds]
        res = C.run_harness(BIN, "release", lines) if os.path.exists(exe) else []
        bad = [ln for ln, d, r in zip(lines, ds, res) if r != "Z:%x" % recip(d)]
        # native scan of the row (2^25 divisors, a fraction of a second): a changed entry can spoil the
        # reciprocal for as few as ~1e-6 of the row's divisors, far below what 50000 samples reach
        scan = C.run_harness(BIN, "release", ["recip_scan 64 Z:%x Z:%x Z:%x" % (i, 1 << 25, 0x9E3779B97F4A7C15 ^ i)]) \
            if os.path.exists(exe) else []
        for r in scan:
            if r.startswith("S:") and len(r) > 2:
                bad += ["reciprocal 64 Z:%s" % h for h in r[2:].split(",")]
        out += bad[:30] + lines[:200]
    return out


def _r2_final(d):
    """(p == d1, t0 < d0) at the last adjustment of reciprocal_2, or None when it is not reached"""
    d1, d0 = d >> 64, d & M64
    v = R.reciprocal(d1)
    p = (d1 * v + d0) & M64
    if p < d0:
        v = (v - 1) & M64
        if p >= d1:
            v = (v - 1) & M64
            p = (p - d1) & M64
        p = (p - d1) & M64
    t = v * d0
    t1, t0 = t >> 64, t & M64
    p = (p + t1) & M64
    if p < t1:
        return p == d1, t0 < d0
    return None


def r2_eq_cases(limit=60):
    """Divisors for which the last adjustment of reciprocal_2 compares (p:t0) with d while p equals
    the HIGH word of d, so that only the low words decide (probability 2^-64 under random d; a
    comparison of the high words alone goes wrong exactly here).  d0 is solved for, not sampled."""
    out = []
    rng = random.Random(77)
    d1s = [(1 << 63) + k for k in range(0, 400)] + [(1 << 63) + rng.getrandbits(58) for _ in range(300)]
    for d1 in d1s:
        v0 = R.reciprocal(d1)
        found = set()
        for vp in (v0, (v0 - 1) & M64, (v0 - 2) & M64):
            for c in (0, 1, 2):
                for k in range(4):
                    num = (d1 - d1 * vp + c * d1 + k * B) % (4 * B)
                    for kk in range(3):
                        est = ((num + kk * B) * B) // (B + vp)
                        for d0 in range(est - 3, est + 4):
                            if 0 <= d0 <= M64:
                                r = _r2_final((d1 << 64) | d0)
                                if r and r[0]:
                                    found.add(((d1 << 64) | d0, r[1]))
        for d, low in sorted(found):
            out.append("reciprocal_2 128 %s" % Z(d))
        if len(out) >= limit:
            break
    return out[:limit]


def corpus():
    extra = table_directed()
    out = []
    # reciprocal: every table row at both ends (+ the neighbours) and the extreme divisors
    for row in range(256):
        lo = (256 + row) << 55
        hi = lo + (1 << 55) - 1
        for d in (lo, lo + 1, hi - 1, hi):
            out.append("reciprocal 64 %s" % Z(d))
        out.append("reciprocal_2 128 %s" % Z(lo << 64))
        out.append("reciprocal_2 128 %s" % Z((hi << 64) | M64))
    for d in (1 << 127, BB - 1, (1 << 127) + 1, (1 << 127) | M64, (M64 << 64), (M64 << 64) | 1,
              0xd5555555555555555555555555555555, 0xd0e757b021715fbecba4ad0e825ae500,
              0xae5d65518a513208a85054919637eb17):
        out.append("reciprocal_2 128 %s" % Z(d))
    # the literal vectors of the crate's own tests that concern rare paths
    out.append("div_nxm_normalized 256 L:1656178c14142000,821415dfe9e81612,1616561616161616,96000016820016 "
               "L:1415dfe9e8161414,1656161616161682,9600001682001616")
    out.append("div 576 L:9c2bcebfa9cca2c6,274e154bb5e24f7a,e1442d5d3842be2b,f18f5adfd420853f,"
               "4ed6127eba3b594,c5c179973cdb1663,7d7f67780bb268ff,3,0 "
               "L:181880b078ab6a1,62d67f6b7b0bda6b,92b1840f9c792ded,19")
    # "very special case for reciprocal_3by2" of the intx vectors
    d = 170141183460488574554024512018559533057
    out.append(c_div(128, tl(d + 1, 2), tl(d, 2)))
    # d = 1, 2^k, all ones, numerator == divisor, numerator = divisor +- 1, at a few shapes
    for ld in (1, 2, 3, 5):
        for ln in (ld, ld + 1, ld + 3):
            for dv in ([1] + [0] * (ld - 1), [0] * (ld - 1) + [1], [0] * (ld - 1) + [1 << 63],
                       [M64] * ld):
                D = ev(dv)
                for N in (D, D - 1, D + 1, B ** ln - 1, D * (B ** (ln - ld)), D * (B ** (ln - ld)) - 1):
                    if 0 <= N < B ** ln:
                        out.append(c_div(64 * ln, tl(N, ln), dv))
    out += D1_REGRESSIONS
    # finding F21 (fixed, 1e97af4): the unrepaired div_3x2_ref returned B-1 resp. 0 here
    out.append("div_3x2_ref 128 %s Z:0 %s" % (Z(1 << 127), Z((1 << 127) + B - 1)))
    out.append("div_3x2_ref 128 %s Z:0 %s" % (Z(B), Z((1 << 127) + B - 1)))
    out.append("reciprocal_ref 64 %s" % Z(1 << 63))
    out.append("reciprocal_ref 64 %s" % Z(M64))
    out += ref_directed()
    out += directed()
    return out + extra + r2_eq_cases()


def gen(rng, tier):
    widths = C.WIDTHS_QUICK if tier == "quick" else C.WIDTHS_QUICK + C.WIDTHS_MORE
    reps = 1 if tier == "quick" else 6
    out = []
    # every entry point at every width: numerator of nlimbs(BITS) limbs
    for bits in widths:
        ln = C.nlimbs(bits)
        for _ in range(2 * reps):
            for ld in sorted({1, 2, 3, max(1, ln - 1), max(1, ln), ln + 1, rng.randrange(1, 13)}):
                slice_cases(rng, bits, ln, ld, out)
            # make sure the three slice x slice kernels are exercised even at tiny widths
            l2 = max(ln, 4)
            slice_cases(rng, bits, l2, 3, out)
            slice_cases(rng, bits, l2, 2, out)
            small_cases(rng, bits, ln, out)
            small_cases(rng, bits, max(ln, 1), out)
            scalar_cases(rng, bits, out)
            ref_cases(rng, bits, out)
        violations(rng, bits, out)
    # the grid of the property: lengths 1..12 x 1..12 independently
    for ln in range(1, 13):
        for ld in range(1, 13):
            slice_cases(rng, 64 * ln, ln, ld, out, reps=2 * reps)
        for _ in range(2 * reps):
            small_cases(rng, 64 * ln, ln, out)
    for _ in range(100 * reps):
        scalar_cases(rng, 64, out)
        ref_cases(rng, 128, out)
    return out


def nontrivial(line):
    p = line.split()
    for t in p[2:]:
        body = t.split(":", 1)[1]
        for x in body.replace(";", ",").split(","):
            if x not in ("", "0", "1"):
                return True
    return False


def known_class(finding, line):
    return False


def extra_evidence(lines):
    """Branch coverage measured inside the real crate by the cfg(recmo_uint_verif) counters."""
    return {"hook_counters": C.hook_counters(BIN, lines)}
