"""Python transliteration of src/algorithms/div/*.rs with branch tracing.
Used ONLY for directed case generation in p_c14.py (finding inputs that take the rare
branches); it is never an oracle: expected results come from the Coq model and spec."""
B = 1 << 64
BB = 1 << 128
M64 = B - 1
M128 = BB - 1

TABLE = [
    2045, 2037, 2029, 2021, 2013, 2005, 1998, 1990, 1983, 1975, 1968, 1960, 1953, 1946, 1938,
    1931, 1924, 1917, 1910, 1903, 1896, 1889, 1883, 1876, 1869, 1863, 1856, 1849, 1843, 1836,
    1830, 1824, 1817, 1811, 1805, 1799, 1792, 1786, 1780, 1774, 1768, 1762, 1756, 1750, 1745,
    1739, 1733, 1727, 1722, 1716, 1710, 1705, 1699, 1694, 1688, 1683, 1677, 1672, 1667, 1661,
    1656, 1651, 1646, 1641, 1636, 1630, 1625, 1620, 1615, 1610, 1605, 1600, 1596, 1591, 1586,
    1581, 1576, 1572, 1567, 1562, 1558, 1553, 1548, 1544, 1539, 1535, 1530, 1526, 1521, 1517,
    1513, 1508, 1504, 1500, 1495, 1491, 1487, 1483, 1478, 1474, 1470, 1466, 1462, 1458, 1454,
    1450, 1446, 1442, 1438, 1434, 1430, 1426, 1422, 1418, 1414, 1411, 1407, 1403, 1399, 1396,
    1392, 1388, 1384, 1381, 1377, 1374, 1370, 1366, 1363, 1359, 1356, 1352, 1349, 1345, 1342,
    1338, 1335, 1332, 1328, 1325, 1322, 1318, 1315, 1312, 1308, 1305, 1302, 1299, 1295, 1292,
    1289, 1286, 1283, 1280, 1276, 1273, 1270, 1267, 1264, 1261, 1258, 1255, 1252, 1249, 1246,
    1243, 1240, 1237, 1234, 1231, 1228, 1226, 1223, 1220, 1217, 1214, 1211, 1209, 1206, 1203,
    1200, 1197, 1195, 1192, 1189, 1187, 1184, 1181, 1179, 1176, 1173, 1171, 1168, 1165, 1163,
    1160, 1158, 1155, 1153, 1150, 1148, 1145, 1143, 1140, 1138, 1135, 1133, 1130, 1128, 1125,
    1123, 1121, 1118, 1116, 1113, 1111, 1109, 1106, 1104, 1102, 1099, 1097, 1095, 1092, 1090,
    1088, 1086, 1083, 1081, 1079, 1077, 1074, 1072, 1070, 1068, 1066, 1064, 1061, 1059, 1057,
    1055, 1053, 1051, 1049, 1047, 1044, 1042, 1040, 1038, 1036, 1034, 1032, 1030, 1028, 1026,
    1024,
]


class Pre(Exception):
    """a debug_assert / overflow check would fire"""


def clz64(x):
    return 64 - x.bit_length()


def reciprocal(d):
    if d < (1 << 63):
        raise Pre()
    d0 = d & 1
    d9 = d >> 55
    d40 = (1 + (d >> 24)) & M64
    d63 = ((d + 1) & M64) >> 1
    v0 = TABLE[d9 - 256]
    v1 = ((v0 << 11) - (((v0 * v0 * d40) & M64) >> 40) - 1) & M64
    v2 = (((v1 << 13) & M64) + (((v1 * (((1 << 60) - v1 * d40) & M64)) & M64) >> 47)) & M64
    e = (((v2 >> 1) & ((0 - d0) & M64)) - ((v2 * d63) & M64)) & M64
    v3 = ((((v2 * e) >> 64) >> 1) + ((v2 << 31) & M64)) & M64
    v4 = (v3 - ((v3 * d + d) >> 64) - d) & M64
    return v4


def reciprocal_2(d, tr=None):
    if d < (1 << 127):
        raise Pre()
    d1, d0 = d >> 64, d & M64
    v = reciprocal(d1)
    p = (d1 * v + d0) & M64
    if p < d0:
        v = (v - 1) & M64
        if p >= d1:
            if tr is not None:
                tr.add("r2_a2")
            v = (v - 1) & M64
            p = (p - d1) & M64
        elif tr is not None:
            tr.add("r2_a1")
        p = (p - d1) & M64
    t = v * d0
    t1, t0 = t >> 64, t & M64
    p = (p + t1) & M64
    if p < t1:
        v = (v - 1) & M64
        if ((p << 64) | t0) >= d:
            if tr is not None:
                tr.add("r2_b2")
            v = (v - 1) & M64
        elif tr is not None:
            tr.add("r2_b1")
    return v


def div_2x1(u, d, v, tr=None):
    if d < (1 << 63) or (u >> 64) >= d or v != reciprocal(d):
        raise Pre()
    q = u + (u >> 64) * v
    if q >= BB:
        raise Pre()
    q0 = q & M64
    q1 = ((q >> 64) + 1) & M64
    r = ((u & M64) - q1 * d) & M64
    if r > q0:
        if tr is not None:
            tr.add("d21_dec")
        q1 = (q1 - 1) & M64
        r = (r + d) & M64
    if r >= d:
        if tr is not None:
            tr.add("d21_inc")
        q1 = (q1 + 1) & M64
        r = (r - d) & M64
    return q1, r


def div_3x2(u21, u0, d, v, tr=None):
    if d < (1 << 127) or u21 >= d or v != reciprocal_2(d):
        raise Pre()
    q = (u21 >> 64) * v + u21
    if q >= BB:
        raise Pre()
    qh, ql = q >> 64, q & M64
    r1 = ((u21 & M64) - qh * (d >> 64)) & M64
    t = (d & M64) * qh
    r = (((r1 << 64) | u0) - t - d) & M128
    q1 = (qh + 1) & M64
    if (r >> 64) >= ql:
        if tr is not None:
            tr.add("d32_dec")
        q1 = (q1 - 1) & M64
        r = (r + d) & M128
    if r >= d:
        if tr is not None:
            tr.add("d32_inc")
        q1 = (q1 + 1) & M64
        r = (r - d) & M128
    return q1, r


def submul_nx1(lhs, a, b):
    assert len(lhs) == len(a)
    carry = borrow = 0
    out = []
    for x, y in zip(lhs, a):
        p = y * b + carry
        limb, carry = p & M64, p >> 64
        r = (x - limb - borrow) & M128
        out.append(r & M64)
        borrow = (-(r >> 64)) & M64
    if borrow + carry >= B:
        raise Pre()
    return out, borrow + carry


def adc_n(lhs, rhs, carry):
    out = []
    for x, y in zip(lhs, rhs):
        s = x + y + carry
        out.append(s & M64)
        carry = s >> 64
    return out, carry


def div_nxm(num, div, tr=None):
    """returns (new numerator, new divisor)"""
    num, div = list(num), list(div)
    n = len(div)
    if n < 3 or len(num) < n or div[-1] == 0:
        raise Pre()
    m = len(num) - n
    d = (div[n - 1] << 64) | div[n - 2]
    shift = clz64(div[n - 1])
    if shift:
        d = ((d << shift) & M128) | (div[n - 3] >> (64 - shift))
    v = reciprocal_2(d, tr)
    q_high = 0
    for j in range(m, -1, -1):
        n2 = num[j + n] if j + n < len(num) else 0
        n21 = (n2 << 64) | num[j + n - 1]
        n0 = num[j + n - 2]
        if shift:
            n21 = ((n21 << shift) & M128) | (n0 >> (64 - shift))
            n0 = ((n0 << shift) & M64) | (num[j + n - 3] >> (64 - shift))
        if n21 > d:
            raise Pre()
        if n21 < d:
            q, r = div_3x2(n21, n0, d, v, tr)
            if q != 0:
                if shift == 0:
                    w, bo = submul_nx1(num[j:j + n - 2], div[:n - 2], q)
                    num[j:j + n - 2] = w
                    borrow = r < bo
                    r = (r - bo) & M128
                    num[j + n - 2] = r & M64
                    num[j + n - 1] = r >> 64
                else:
                    w, bo = submul_nx1(num[j:j + n], div, q)
                    num[j:j + n] = w
                    n2 = num[j + n] if j + n < len(num) else 0
                    borrow = bo != n2
                if borrow:
                    if tr is not None:
                        tr.add("nxm_addback_s0" if shift == 0 else "nxm_addback")
                    q = (q - 1) & M64
                    w, c = adc_n(num[j:j + n], div, 0)
                    num[j:j + n] = w
                    if c != 1:
                        raise Pre()
            elif tr is not None:
                tr.add("nxm_q0")
        else:
            if tr is not None:
                tr.add("nxm_ovf_s0" if shift == 0 else "nxm_ovf")
            q = M64
            w, _ = submul_nx1(num[j:j + n], div, q)
            num[j:j + n] = w
        if j + n < len(num):
            num[j + n] = q
        else:
            q_high = q
    div = num[:n]
    num = num[n:] + [0] * n
    num[m] = q_high
    for i in range(m + 1, len(num)):
        num[i] = 0
    return num, div


def div_nxm_normalized(num, div, tr=None):
    num = list(num)
    n = len(div)
    if n < 2 or len(num) <= n or div[-1] < (1 << 63):
        raise Pre()
    top = num[len(num) - n:]
    if not sum(x << (64 * i) for i, x in enumerate(top)) < sum(x << (64 * i) for i, x in enumerate(div)):
        raise Pre()
    m = len(num) - n - 1
    d = (div[n - 1] << 64) | div[n - 2]
    v = reciprocal_2(d, tr)
    for j in range(m, -1, -1):
        n21 = (num[j + n] << 64) | num[j + n - 1]
        n0 = num[j + n - 2]
        if n21 > d:
            raise Pre()
        if n21 == d:
            if tr is not None:
                tr.add("nrm_ovf")
            q = M64
            w, _ = submul_nx1(num[j:j + n], div, q)
            num[j:j + n] = w
            num[j + n] = q
            continue
        q, r = div_3x2(n21, n0, d, v, tr)
        w, bo = submul_nx1(num[j:j + n - 2], div[:n - 2], q)
        num[j:j + n - 2] = w
        borrow = r < bo
        r = (r - bo) & M128
        num[j + n - 2] = r & M64
        num[j + n - 1] = r >> 64
        if borrow:
            if tr is not None:
                tr.add("nrm_addback")
            q = (q - 1) & M64
            w, c = adc_n(num[j:j + n], div, 0)
            num[j:j + n] = w
            if c != 1:
                raise Pre()
        num[j + n] = q
    return num


def div_nx1(limbs, d, tr=None):
    limbs = list(limbs)
    if d == 0 or not limbs or limbs[-1] == 0:
        raise Pre()
    shift = clz64(d)
    if shift == 0:
        v = reciprocal(d)
        r = 0
        for i in range(len(limbs) - 1, -1, -1):
            limbs[i], r = div_2x1((r << 64) | limbs[i], d, v, tr)
        return limbs, r
    d = (d << shift) & M64
    v = reciprocal(d)
    rem = limbs[-1] >> (64 - shift)
    for i in range(len(limbs) - 1, 0, -1):
        u = ((limbs[i] << shift) & M64) | (limbs[i - 1] >> (64 - shift))
        limbs[i], rem = div_2x1((rem << 64) | u, d, v, tr)
    limbs[0], rem = div_2x1((rem << 64) | ((limbs[0] << shift) & M64), d, v, tr)
    return limbs, rem >> shift


def div_nx2(limbs, d, tr=None):
    limbs = list(limbs)
    if d < B or not limbs or limbs[-1] == 0:
        raise Pre()
    shift = clz64(d >> 64)
    if shift == 0:
        v = reciprocal_2(d, tr)
        r = 0
        for i in range(len(limbs) - 1, -1, -1):
            limbs[i], r = div_3x2(r, limbs[i], d, v, tr)
        return limbs, r
    d = (d << shift) & M128
    v = reciprocal_2(d, tr)
    rem = limbs[-1] >> (64 - shift)
    for i in range(len(limbs) - 1, 0, -1):
        u = ((limbs[i] << shift) & M64) | (limbs[i - 1] >> (64 - shift))
        limbs[i], rem = div_3x2(rem, u, d, v, tr)
    limbs[0], rem = div_3x2(rem, (limbs[0] << shift) & M64, d, v, tr)
    return limbs, rem >> shift


def div(num, dv, tr=None):
    """top-level div on trimmed dispatch; returns the branch tags only (via tr)."""
    nt = list(num)
    while nt and nt[-1] == 0:
        nt.pop()
    dt = list(dv)
    while dt and dt[-1] == 0:
        dt.pop()
    if not dt or not nt or len(nt) < len(dt):
        return
    if len(dt) == 1:
        if len(nt) > 1:
            div_nx1(nt, dt[0], tr)
    elif len(dt) == 2:
        div_nx2(nt, (dt[1] << 64) | dt[0], tr)
    else:
        div_nxm(nt, dt, tr)
