"""C17, part A — decoders of rlp, alloy-rlp, fastrlp 0.3/0.4, serde_json, bincode on untrusted
input. Part module (no property metadata)."""
from . import common as C

BIN = "c16a"
RUNMOD = "RunC17A"
FEATURES = ["codecs_a"]

RLP_FNS = ["rlp_decode", "bits_rlp_decode", "alloy_rlp_decode", "fastrlp03_decode", "fastrlp04_decode"]

SUSPECT = []

# regression inputs of the repaired defect "rlp Decodable for Uint accepted RLP lists" (commit 462e4b6):
# all must now be rejected with RlpExpectedToBeData (E:4)
LIST_REGRESSIONS = ["rlp_decode 64 Y:c105", "rlp_decode 256 Y:c3820400", "rlp_decode 16 Y:c20005",
                    "rlp_decode 8 Y:c0", "rlp_decode 0 Y:c0"]


def nbytes(bits):
    return (bits + 7) // 8


def be(v, n):
    return [(v >> (8 * (n - 1 - i))) & 0xff for i in range(n)]


def be_min(v):
    return be(v, (v.bit_length() + 7) // 8)


def rlp_prefix(off, n):
    if n < 56:
        return [off + n]
    lb = be_min(n)
    return [off + 55 + len(lb)] + lb


def rlp_string(p):
    if len(p) == 1 and p[0] < 0x80:
        return list(p)
    return rlp_prefix(0x80, len(p)) + list(p)


def rlp_uint(v):
    return rlp_string(be_min(v))


def interesting_values(rng, bits, n):
    m = 1 << bits
    by = nbytes(bits)
    vs = [0, 1, 0x7f, 0x80, 0xff, 0x100, m - 1, m, m + 1, m >> 1, (1 << (8 * by)) - 1,
          (1 << (8 * by)), (1 << 440) - 1, 1 << 440, (1 << 448) - 1]
    for _ in range(n):
        vs.append(C.rand_value(rng, bits) if bits else 0)
        k = rng.randrange(0, 8 * by + 9)
        vs.append(rng.getrandbits(k) if k else 0)
        if bits % 8:
            vs.append((C.rand_value(rng, bits) | (1 << rng.randrange(bits, 8 * by))))   # excess high bits
    return [v for v in vs if v >= 0]


def rlp_mutations(rng, bits, v):
    """valid encoding of v and single-field mutations of it"""
    by = nbytes(bits)
    p = be_min(v)
    good = rlp_string(p)
    out = [good]
    out.append(good + [rng.randrange(256) for _ in range(rng.randrange(1, 4))])   # extension
    if len(good) > 1:
        out.append(good[:-1])                                                     # truncation
        out.append(good[:rng.randrange(1, len(good))])
    # leading zeros in the payload
    for z in (1, 2):
        out.append(rlp_prefix(0x80, len(p) + z) + [0] * z + p)
    # padded to BYTES / BYTES+1
    if len(p) < by:
        out.append(rlp_prefix(0x80, by) + [0] * (by - len(p)) + p)
    out.append(rlp_prefix(0x80, by + 1) + [0] * (by + 1 - len(p)) + p if len(p) <= by else good)
    # single byte < 0x80 with a header; header for explicit one byte
    if len(p) == 1:
        out.append([0x81] + p)
        out.append([0xb8, 1] + p)
    # long form for a short string; long form with leading zero length byte; two length bytes
    if len(p) < 56:
        out.append([0xb8, len(p)] + p)
        out.append([0xb9, 0, len(p)] + p)
    else:
        out.append([0xb9, 0, len(p)] + p)
        out.append([0x80 + 55] + p)
        out.append([0xba, 0, 0, len(p)] + p)
    # length byte +-1
    h = rlp_prefix(0x80, len(p))
    if len(p) != 1 or p[0] >= 0x80:
        for d in (-1, 1):
            hh = list(h)
            if 0x80 <= hh[-1] + d <= 0xff or len(hh) > 1:
                hh[-1] = (hh[-1] + d) & 0xff
                out.append(hh + p)
    # wrong string/list bit
    out.append(rlp_prefix(0xc0, len(p)) + p)
    out.append([0xc0 + len(good)] + good if len(good) < 56 else rlp_prefix(0xc0, len(good)) + good)
    # huge declared lengths
    out.append([0xbf] + [0xff] * 8 + p[:4])
    out.append([0xbf] + [0x80] + [0] * 7)
    out.append([0xbb, 0xff, 0xff, 0xff, 0xff] + p[:3])
    return out


def rand_bytes(rng, n):
    r = rng.random()
    if r < 0.15:
        return [rng.choice([0, 0xff, 0x80, 0x7f]) for _ in range(n)]
    bs = [rng.randrange(256) for _ in range(n)]
    if n and r < 0.6:
        bs[0] = rng.choice([0x00, 0x7f, 0x80, 0x81, 0x82, 0xb7, 0xb8, 0xb9, 0xbf, 0xc0, 0xc1, 0xf7, 0xf8, 0xff,
                            0x80 + min(n - 1, 55)])
    return bs


def json_texts(rng, bits, v):
    h = "%x" % v
    q = '"0x%s"' % h
    outs = [q, '"0x0"', '"0x"', '""', '"0"', '"%d"' % v, "%d" % v, '"0X%s"' % h.upper(), '"0x0%s"' % h,
            '"0x%s"' % h.zfill(2 * nbytes(bits) + 2), '"0o%o"' % v, '"0b%s"' % bin(v)[2:], '"0x%s_"' % h,
            '"0x%sg"' % h, ' %s ' % q, '%s x' % q, q[:-1], '"0x%s' % h, '-%d' % v, '%d.0' % v, '%de0' % v,
            '0%d' % v, 'null', 'true', '[1]', '{"a":1}', '[%s]' % q, '"\\u0030x%s"' % h, '"0\\u0078%s"' % h,
            '"0x%s\\n"' % h, '"\\ud83d\\ude00"', '"\\ud83d"', '"\\x"', '"0x\x01"', '"0x%s\\u00e9"' % h,
            '\t\n\r %d\n' % v, '18446744073709551615', '18446744073709551616', '"0x%x"' % (1 << bits),
            '"%d"' % (1 << bits), '%d' % (1 << bits) if bits < 70 else '1', '"0x%x"' % ((1 << bits) - 1 if bits else 0),
            "", " ", '"', '"\\', '"\\u00', '"0x1" "0x1"', '"é"', '"0xé"', '"0x1', "'0x1'", '"0x 1"', '"+1"', '"-1"',
            '"1e3"', '1E2', '0', '00', '0x1', '"0x%s"' % ("f" * (bits // 4 + 1))]
    res = [list(t.encode("utf-8")) for t in outs]
    res.append([0x22, 0x30, 0x78, 0xff, 0x22])       # invalid UTF-8 inside a string
    res.append([0x22, 0xc3, 0x28, 0x22])
    res.append([0xef, 0xbb, 0xbf] + list(q.encode()))   # BOM
    return res


def bincode_inputs(rng, bits, v):
    by = nbytes(bits)
    le64 = lambda n: [(n >> (8 * i)) & 0xff for i in range(8)]
    p = be(v % (1 << (8 * by)) if by else 0, by)
    good = le64(by) + p
    out = [good, good + [rng.randrange(256)], good[:-1] if good else good, good[:7], good[:8], []]
    out.append(le64(by + 1) + [0] + p)                 # longer string, leading zero
    out.append(le64(by + 1) + p)                       # length +1, truncated
    if by:
        out.append(le64(by - 1) + p[1:])               # shorter string
        out.append(le64(by - 1) + p)
        out.append(le64(by) + [0xff] * by)             # excess high bits when BITS % 8 != 0
    out.append(le64((1 << 64) - 1) + p)
    out.append(le64(1 << 63) + p)
    out.append(le64(by)[:-1] + [1] + p)                # huge length
    return out


def corpus():
    out = list(LIST_REGRESSIONS)
    # F5b regression: full-length all-ones payloads at widths with BYTES % 8 == 0, BITS % 64 != 0
    for bits in (60, 63, 127, 250, 255):
        by = nbytes(bits)
        ff = [0xff] * by
        for f in RLP_FNS:
            out.append("%s %d %s" % (f, bits, C.tokY(rlp_string(ff))))
            out.append("%s %d %s" % (f, bits, C.tokY(rlp_string([0x1f] + ff[1:]))))
        out.append("bincode_de %d %s" % (bits, C.tokY([by] + [0] * 7 + ff)))
        out.append("serde_json_de %d %s" % (bits, C.tokY(list(('"0x%s"' % ("ff" * by)).encode()))))
    # upstream's malformed literals
    for h in ("820000", "00", "8100", "817f", "8133", "80", "", "0f", "820400", "8412345678", "b8", "b800", "c0"):
        bs = [int(h[i:i + 2], 16) for i in range(0, len(h), 2)]
        for f in RLP_FNS:
            out.append("%s 256 %s" % (f, C.tokY(bs)))
    return [ln for ln in out if ln not in SUSPECT]


def gen(rng, tier):
    widths = list(C.WIDTHS_QUICK) + (list(C.WIDTHS_MORE) if tier == "thorough" else [])
    nv = 1 if tier == "quick" else 6
    nr = 6 if tier == "quick" else 40
    out = []
    for bits in widths:
        by = nbytes(bits)
        vals = interesting_values(rng, bits, nv)
        # RLP family: every decoder sees the same inputs
        inputs = []
        for v in vals:
            ms = rlp_mutations(rng, bits, v)
            inputs += ms if tier != "quick" else [ms[0]] + rng.sample(ms[1:], min(4, len(ms) - 1))
        for _ in range(nr):
            inputs.append(rand_bytes(rng, rng.randrange(0, by + 17)))
        seen = set()
        for k, bs in enumerate(inputs):
            t = C.tokY(bs)
            if t in seen:
                continue
            seen.add(t)
            for f in RLP_FNS:
                # fastrlp 0.3 / 0.4 share their glue: in the quick tier they alternate
                if tier == "quick" and f == ("fastrlp03_decode", "fastrlp04_decode")[k % 2]:
                    continue
                out.append("%s %d %s" % (f, bits, t))
        # JSON
        for v in rng.sample(vals, min(len(vals), 3 if tier == "quick" else 10)):
            ts = json_texts(rng, bits, v)
            for bs in (ts if tier != "quick" else ts[:6] + rng.sample(ts[6:], 12)):
                out.append("serde_json_de %d %s" % (bits, C.tokY(bs)))
        for _ in range(nr // 2):
            n = rng.randrange(0, 12)
            alphabet = list(b'"0x19afAF_ \\u-.e[]{}:,ntg') + [0xc3, 0xa9, 0x00]
            out.append("serde_json_de %d %s" % (bits, C.tokY([rng.choice(alphabet) for _ in range(n)])))
            body = [rng.choice(list(b"0123456789abcdefABCDEFxob_g")) for _ in range(rng.randrange(0, 2 * by + 6))]
            out.append("serde_json_de %d %s" % (bits, C.tokY([0x22] + body + [0x22])))
        # bincode
        for v in rng.sample(vals, min(len(vals), 4 if tier == "quick" else 12)):
            for bs in bincode_inputs(rng, bits, v):
                out.append("bincode_de %d %s" % (bits, C.tokY(bs)))
        for _ in range(nr // 2):
            bs = [by, 0, 0, 0, 0, 0, 0, 0] + [rng.randrange(256) for _ in range(rng.randrange(0, by + 9))]
            out.append("bincode_de %d %s" % (bits, C.tokY(bs)))
            out.append("bincode_de %d %s" % (bits, C.tokY(rand_bytes(rng, rng.randrange(0, by + 17)))))
        # visitor integer entry points
        m = 1 << bits
        for n in {0, 1, m - 1, m, m + 1, (1 << 64) - 1, (1 << 63), rng.getrandbits(64), rng.getrandbits(16)}:
            if 0 <= n < (1 << 64):
                out.append("serde_value_u64 %d %s" % (bits, C.tokZ(n)))
        for n in {0, 1, m - 1, m, m + 1, (1 << 64) - 1, 1 << 64, (1 << 128) - 1, 1 << 127, rng.getrandbits(128),
                  rng.getrandbits(70)}:
            if 0 <= n < (1 << 128):
                out.append("serde_value_u128 %d %s" % (bits, C.tokZ(n)))
    return [ln for ln in out if ln not in SUSPECT]


def nontrivial(ln):
    p = ln.split()
    return len(p[2]) > 2 and p[2][2:].strip("0") != ""


def known_class(finding, ln):
    return False
