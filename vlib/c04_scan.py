"""Source scanner for C04 part (d): which constants / constructors of `Uint<BITS, LIMBS>` mention
`Self::LIMBS` (directly or through the constants and functions they use)?

Method (textual, no rustc): comments, strings and char literals are blanked; every `impl` block
(also those inside `macro_rules!` bodies) is located, its header classified by target type
(`Uint`, `Bits`, other); every `fn` / `const` item directly inside it is extracted with its body
(balanced braces, or the initialiser up to `;`).  `forward! { fn name(..) .. }` lists of
src/bit_arr.rs declare `Bits` items whose body is `Uint::name(..)`.
An item *mentions* `Self::LIMBS` when it is the checked constant itself (`const LIMBS` of
src/lib.rs, whose initialiser contains the `assert!`), or when its body refers through
`Self::x`, `self.x(`, `Uint::x`, `Uint::<..>::x`, `Bits::x`, `<..>::x` to an item named `x` of the
matching target type that mentions it (least fixpoint; a name shared by several items of the same
target, e.g. the `try_from` impls, resolves to all of them and counts when any of them mentions —
every table entry is validated against rustc by the probe programs).
`runtime_check`: the body contains `assert_eq!(LIMBS.., nlimbs(..))`-style checks (widening_mul)."""
import glob
import os
import re

SUPPORT = ["rand", "rand_09", "arbitrary", "proptest", "quickcheck", "bytemuck"]


def scan_files(repo):
    fs = sorted(glob.glob(os.path.join(repo, "src", "*.rs")))
    fs += [os.path.join(repo, "src", "support", s + ".rs") for s in SUPPORT]
    return [f for f in fs if os.path.exists(f)]


def blank(src):
    """blank comments, string and char literals (same length, newlines kept)"""
    out = list(src)
    i, n = 0, len(src)

    def fill(a, b):
        for k in range(a, b):
            if out[k] != "\n":
                out[k] = " "
    while i < n:
        c = src[i]
        if src.startswith("//", i):
            j = src.find("\n", i)
            j = n if j < 0 else j
            fill(i, j)
            i = j
        elif src.startswith("/*", i):
            depth, j = 1, i + 2
            while j < n and depth:
                if src.startswith("/*", j):
                    depth += 1
                    j += 2
                elif src.startswith("*/", j):
                    depth -= 1
                    j += 2
                else:
                    j += 1
            fill(i, j)
            i = j
        elif c == '"':
            j = i + 1
            while j < n and src[j] != '"':
                j += 2 if src[j] == "\\" else 1
            fill(i + 1, j)
            i = j + 1
        elif c == "r" and re.match(r'r#*"', src[i:]):
            m = re.match(r'r(#*)"', src[i:])
            end = src.find('"' + m.group(1), i + len(m.group(0)))
            end = n if end < 0 else end
            fill(i + len(m.group(0)), end)
            i = end + 1 + len(m.group(1))
        elif c == "'":
            m = re.match(r"'(\\.[^']*|[^\\'])'", src[i:])
            if m:
                fill(i + 1, i + len(m.group(0)) - 1)
                i += len(m.group(0))
            else:
                i += 1
        else:
            i += 1
    return "".join(out)


def match_brace(s, i):
    """s[i] == '{' -> index just after the matching '}'"""
    depth = 0
    for j in range(i, len(s)):
        if s[j] == "{":
            depth += 1
        elif s[j] == "}":
            depth -= 1
            if depth == 0:
                return j + 1
    return len(s)


def target_of(header):
    h = re.sub(r"\{\s*(\w+)\s*\}", r"\1", re.sub(r"\s+", " ", header))
    m = re.search(r"\bfor (?:&\s*(?:'\w+\s+)?(?:mut\s+)?)?([\w$:]+)", h)
    if m:
        t = m.group(1)
    else:
        m = re.match(r"impl\s*(<[^{]*?>)?\s*([\w$:]+)", re.sub(r"impl\s*<(?:[^<>]|<[^<>]*>)*>", "impl", h))
        t = m.group(2) if m else "?"
    t = t.split("::")[-1]
    return t if t in ("Uint", "Bits") else "other"


class Item:
    def __init__(self, file, header, target, kind, name, body, line):
        self.file, self.header, self.target, self.kind, self.name = file, header, target, kind, name
        self.body, self.line = body, line
        self.edges = set()
        self.mentions = False
        self.why = None

    def key(self):
        return "%s:%d %s::%s" % (self.file, self.line, self.target, self.name)


ITEM_RE = re.compile(r"\b(fn|const)\s+([A-Za-z_]\w*)\b")


def items_of_block(file, header, target, text, base_off, src, items):
    """text = inside of an impl block; items directly inside (relative depth 0)"""
    depth, i, n = 0, 0, len(text)
    while i < n:
        c = text[i]
        if c == "{":
            depth += 1
            i += 1
            continue
        if c == "}":
            depth -= 1
            i += 1
            continue
        if depth == 0:
            m = ITEM_RE.match(text, i)
            if m and (i == 0 or not (text[i - 1].isalnum() or text[i - 1] == "_")):
                kind, name = m.group(1), m.group(2)
                if kind == "const" and re.match(r"\s*fn\b", text[m.end(1):]):
                    i = m.end(1)        # `const fn`: let the `fn` be matched
                    continue
                # end of signature: first `{` or `;` at paren depth 0
                j, pd = m.end(), 0
                while j < n:
                    if text[j] in "([":
                        pd += 1
                    elif text[j] in ")]":
                        pd -= 1
                    elif pd == 0 and text[j] in ("{;=" if kind == "const" else "{;"):
                        break
                    j += 1
                if j >= n:
                    break
                if kind == "fn":
                    if text[j] == "{":
                        e = match_brace(text, j)
                        body = text[j:e]
                    else:
                        e, body = j + 1, ""
                else:
                    # const NAME: T = init ;   (init may contain blocks)
                    k, bd = j, 0
                    while k < n:
                        if text[k] == "{":
                            bd += 1
                        elif text[k] == "}":
                            bd -= 1
                        elif text[k] == ";" and bd == 0:
                            break
                        k += 1
                    e, body = k + 1, text[j:k]
                line = src.count("\n", 0, base_off + i) + 1
                items.append(Item(file, header, target, kind, name, body, line))
                i = e
                continue
        i += 1


EDGE_RES = [
    ("self", re.compile(r"\bSelf::(\w+)")),
    ("self", re.compile(r"\.(\w+)\s*(?:::<[^>]*>)?\(")),      # any method call, resolved in the own target
    ("Uint", re.compile(r"\bUint::(?:<[^>]*>::)?(\w+)")),
    ("Bits", re.compile(r"\bBits::(?:<[^>]*>::)?(\w+)")),
    ("Uint", re.compile(r"<\s*Uint<[^>]*>\s*>::(\w+)")),
]
# `src.parse()` (str::parse, the target type is inferred): in this crate only `Uint: FromStr` is parsed
PARSE_RE = re.compile(r"\.parse\s*(?:::<[^>]*>)?\(")


def scan(repo):
    items = []
    for path in scan_files(repo):
        rel = os.path.relpath(path, os.path.join(repo, "src"))
        src = open(path).read()
        # drop the unit tests
        cut = re.search(r"#\[cfg\(test\)\]\s*mod\s+\w+\s*\{", src)
        code = blank(src[:cut.start()] if cut else src)
        for m in re.finditer(r"\bimpl\b(?:[^{;]|\{\s*\w+\s*\})*\{", code):   # `{ BITS }` may occur in the header
            header = re.sub(r"\s+", " ", m.group(0)[:-1]).strip()
            e = match_brace(code, m.end() - 1)
            items_of_block(rel, header, target_of(header), code[m.end():e - 1], m.end(), code, items)
        if rel == "bit_arr.rs":
            for m in re.finditer(r"\bforward!\s*\{", code):
                e = match_brace(code, m.end() - 1)
                blk = code[m.end():e - 1]
                for fm in re.finditer(r"\bfn\s+(\w+)", blk):
                    it = Item(rel, "forward!", "Bits", "fn", fm.group(1), "Uint::%s(..)" % fm.group(1),
                              code.count("\n", 0, m.end() + fm.start()) + 1)
                    items.append(it)
    items = [it for it in items if not it.name.startswith("$")]
    by_name = {}
    for it in items:
        by_name.setdefault((it.target, it.name), []).append(it)
    for it in items:
        for tgt, rx in EDGE_RES:
            for m in rx.finditer(it.body):
                t = it.target if tgt == "self" else tgt
                if (t, m.group(1)) in by_name:
                    it.edges.add((t, m.group(1)))
        if PARSE_RE.search(it.body) and ("Uint", "from_str") in by_name:
            it.edges.add(("Uint", "from_str"))
        it.runtime_check = bool(re.search(r"assert(_eq)?!\(\s*LIMBS\w*\s*(==|,)\s*(crate::)?nlimbs\(", it.body))
    # base: the checked constant itself
    for it in items:
        if it.name == "LIMBS" and it.target == "Uint" and "assert!" in it.body:
            it.mentions, it.why = True, "the checked constant"
    changed = True
    while changed:
        changed = False
        for it in items:
            if it.mentions:
                continue
            for e in sorted(it.edges):
                hit = [c for c in by_name[e] if c.mentions]
                if hit:
                    it.mentions = True
                    it.why = "%s::%s (%s:%d)" % (e[0], e[1], hit[0].file, hit[0].line)
                    changed = True
                    break
    return items


def candidates(items):
    """public-looking value sources: items of target Uint/Bits without a self receiver whose
    signature is not visible here; approximated by: consts of type Self, and fns whose name is a
    known constructor prefix.  Used only to warn about constructors missing from the list."""
    out = []
    for it in items:
        if it.target in ("Uint", "Bits") and it.kind == "const" and it.name.isupper():
            out.append(it)
    return out


if __name__ == "__main__":
    import sys
    its = scan(sys.argv[1] if len(sys.argv) > 1 else "/repo")
    for it in its:
        if it.target in ("Uint", "Bits") or "Uint<BITS, LIMBS>" in it.header:
            print("%-5s %-34s %-5s %s  <- %s" % (it.mentions, it.key(), it.kind, it.header[:60], it.why))
