"""C09 — radix conversion, parsing and formatting: case generator and metadata."""
from . import common as C

PID = "C09"
BIN = "c09"
RUNMOD = "RunC09"
LEVEL = "proof"
RULE = ("digit conversion: boundary-biased values x bases {0,1,2,3,7,8,10,16,36,64,255,256,10^19,2^32,"
        "2^63,2^64-1,random}; from_base: digit strings of values around 2^BITS (MAX, MAX+1, one digit too "
        "many), padded with zeros, with a digit == base / > base at a random place, bases 0/1; parsing: "
        "radix 0..=65 (+ large) x strings over the accepted alphabets (random case, ignored chars) of values "
        "around 2^BITS, with invalid / out-of-radix / non-ASCII chars inserted, prefixes 0x 0o 0b for "
        "from_str; formatting: 6 traits x {+,#,0} x 9 fill/alignments x width {none,0,1,7,80,random} on "
        "values at chunk boundaries (MAX^k-1, MAX^k, MAX^k+1, zero chunks) and boundary-biased values; "
        "fmt_ref = the same spec on u128 (BITS<=128). non-trivial: BITS>0 and not the zero value/empty "
        "string; distinct = distinct case lines")
TRUSTED = ["Coq 8.16.1 kernel + vm_compute",
           "hand-written Gallina model coq/Model/{Base,Word,Limbs,BaseConv,Str,Fmt}.v",
           "model of core::fmt (pad_integral, u64/u128 digit printing) in Model/Fmt.v, validated against "
           "rustc's formatting of u128 by the fmt_ref cases",
           "correspondence harness harness/src/bin/c09.rs + vlib (python) translation of tokens",
           "rustc/LLVM u64/u128 semantics"]
ASSUMPTIONS = ["u64/u128 arithmetic modelled as Z arithmetic with explicit wraps",
               "core::fmt::Formatter::pad_integral and the integer printing of u64 behave as modelled "
               "(Model/Fmt.v std_*), checked differentially only",
               "format specs outside the grid (precision, {:x?}) are not covered"]
EXPLANATION = ("Theorem C09_holds: forall wf call, spec call (run call) = true, for all BITS >= 0: the digit "
               "iterators yield the positional digits, from_base_* return the value / an applicable error, "
               "parsing accepts exactly the documented alphabets, and the formatted text equals the reference "
               "formatting (std pad_integral applied to the positional digit string); the correspondence run "
               "evaluates model and spec on the crate's actual outputs inside coqc")

SUSPECT = []   # case lines on which the crate itself violates the property (none known)

B64 = 1 << 64
BASES = [2, 3, 7, 8, 10, 16, 36, 64, 255, 256, 10 ** 19, 1 << 32, 1 << 63, B64 - 1]
FMT_MAX = {0: 10 ** 19, 1: 10 ** 19, 2: 1 << 60, 3: 1 << 60, 4: 1 << 63, 5: 1 << 63}
A36 = "0123456789abcdefghijklmnopqrstuvwxyz"
A64 = "ABCDEFGHIJKLMNOPQRSTUVWXYZabcdefghijklmnopqrstuvwxyz0123456789"
INVALID = [" ", "!", "@", "[", "`", "{", ".", ":", "/", "é", "€", "\U0001F600", "\x00",
           "٠", "０", "~", "\t", "*", "#",
           # non-ASCII characters whose low byte (or low 7 bits) is an ASCII digit, letter, `_`, `+`,
           # `/`, `=`: a classifier that truncates the code point would accept them
           "\u0131", "\u0139", "\u0141", "\u015a", "\u0161", "\u017a", "\u015f", "\u0661",
           "\u012b", "\u012f", "\u013d", "\u0230", "\u0341", "\u2030", "\u2161", "\uff10",
           "\u00b1", "\u00c1", "\u00e1", "\u00df", "\U00010030", "\U0001F431"]
WIDTHS_FMT = [0, 1, 7, 80]


def digits_le(v, b):
    out = []
    while v > 0:
        out.append(v % b)
        v //= b
    return out


def rand_base(rng):
    r = rng.random()
    if r < 0.7:
        return rng.choice(BASES)
    if r < 0.85:
        return rng.randrange(2, 100)
    return max(2, C.rand_limb(rng))


def near_pow(rng, bits):
    """values around 2^bits (may exceed it)"""
    m = 1 << bits
    return max(0, m + rng.choice([-2, -1, 0, 1, 2, m, -m // 2, rng.randrange(-m, m + 1)]))


def tokY(s):
    return C.tokY(s.encode("utf-8"))


# ------------------------------------------------------------------ digit conversion
def case_to_base(rng, bits, f):
    v = C.rand_value(rng, bits)
    b = rand_base(rng) if rng.random() < 0.95 else rng.choice([0, 1])
    if rng.random() < 0.25 and b >= 2:
        # around a power of the base
        k = rng.randrange(0, max(1, int(bits / max(1, b.bit_length() - 1)) + 2))
        v = max(0, b ** k + rng.choice([-1, 0, 1])) % (1 << bits) if bits else 0
    if bits >= 1024 and b < 8:
        b = rng.choice([10, 16, 10 ** 19, 1 << 63])    # keep the model evaluation fast
    return "%s %d %s %s" % (f, bits, C.tokU(bits, v), C.tokZ(b))


def case_from_base(rng, bits, f):
    le = f.endswith("le")
    r = rng.random()
    b = rand_base(rng)
    if r < 0.06:
        b = rng.choice([0, 1])
    if bits >= 1024 and b < 8:
        b = rng.choice([10, 16, 10 ** 19, 1 << 63])
    bb = max(b, 2)
    r = rng.random()
    if r < 0.35:
        v = C.rand_value(rng, bits)
    elif r < 0.8:
        v = near_pow(rng, bits)
    else:
        v = (1 << bits) * rng.randrange(1, 5) + C.rand_value(rng, bits)
    ds = digits_le(v, bb)
    r = rng.random()
    if r < 0.25:
        ds = ds + [0] * rng.randrange(1, 4)                 # leading zeros
    if r > 0.9:
        ds = ds + [0] * rng.randrange(1, 3) + [rng.randrange(1, bb)]   # far too large
    r = rng.random()
    if r < 0.25 and b < B64 - 1:
        # an offending digit somewhere
        bad = rng.choice([bb, bb + 1, B64 - 1, rng.randrange(bb, B64)])
        pos = rng.randrange(len(ds) + 1)
        if rng.random() < 0.5:
            ds = ds[:pos] + [bad] + ds[pos:]
        elif ds:
            ds[pos % len(ds)] = bad
        else:
            ds = [bad]
    if rng.random() < 0.03:
        ds = []
    if not le:
        ds = ds[::-1]
    return "%s %d %s %s" % (f, bits, C.tokZ(b), C.tokL(ds))


# ------------------------------------------------------------------ parsing
def encode_digits(rng, ds_be, radix):
    """digits (most significant first) -> text over the accepted alphabet of `radix`"""
    out = []
    for d in ds_be:
        if radix <= 36:
            ch = A36[d] if d < 36 else "~"
            if rng.random() < 0.4:
                ch = ch.upper()
            out.append(ch)
            if rng.random() < 0.08:
                out.append("_")
        else:
            if d < 62:
                ch = A64[d]
            elif d == 62:
                ch = rng.choice("+-")
            else:
                ch = rng.choice("/,_")
            out.append(ch)
            if rng.random() < 0.08:
                out.append(rng.choice(["=", "\r", "\n"]))
    return "".join(out)


def rand_text(rng, bits, radix):
    rr = min(max(radix, 2), 64)
    r = rng.random()
    if r < 0.3:
        v = C.rand_value(rng, bits)
    elif r < 0.85:
        v = near_pow(rng, bits)
    else:
        v = (1 << bits) * rng.randrange(1, 70) + C.rand_value(rng, bits)
    ds = digits_le(v, rr)[::-1]
    if rng.random() < 0.2:
        ds = [0] * rng.randrange(1, 3) + ds
    s = encode_digits(rng, ds, rr)
    r = rng.random()
    if r < 0.22:
        # insert an offending char: invalid, or a digit of a larger radix, or an ignored char of the
        # other alphabet
        pool = list(INVALID)
        pool += list(A36[min(rr, 35):]) + list("+-/,=\r\n_") + list(A64) + list("gGzZ")
        ch = rng.choice(pool)
        pos = rng.randrange(len(s) + 1)
        s = s[:pos] + ch + s[pos:]
        if rng.random() < 0.3:
            pos = rng.randrange(len(s) + 1)
            s = s[:pos] + rng.choice(pool) + s[pos:]
    if rng.random() < 0.03:
        s = ""
    return s


def case_from_str_radix(rng, bits, radix=None):
    if radix is None:
        r = rng.random()
        if r < 0.8:
            radix = rng.randrange(0, 66)
        elif r < 0.9:
            radix = rng.choice([2, 8, 10, 16, 36, 37, 64])
        else:
            radix = rng.choice([65, 66, 100, 1 << 32, B64 - 1, C.rand_limb(rng)])
    if bits >= 1024 and radix < 8:
        radix = rng.choice([10, 16, 36, 64])
    return "from_str_radix %d %s %s" % (bits, C.tokZ(radix), tokY(rand_text(rng, bits, radix)))


def case_from_str(rng, bits):
    r = rng.random()
    if r < 0.75:
        pfx, radix = rng.choice([("0x", 16), ("0X", 16), ("0o", 8), ("0O", 8), ("0b", 2), ("0B", 2),
                                 ("", 10), ("", 10)])
        if bits >= 1024 and radix < 8:
            pfx, radix = "0x", 16
        s = pfx + rand_text(rng, bits, radix)
    elif r < 0.9:
        s = rng.choice(["", "0", "0x", "0X", "0o", "0b", "x", "0_", "_0x1", "00x1", "0x_", "0x0x1",
                        "é", "é0x1", "0é", "€", "€1", "1€", "0€1",
                        "\U0001F600", "0b2", "0o8", "0xg", "0XG", "0b_1", "12é", "0xé",
                        "+1", "-1", " 1", "1 ", "0d1", "0z"])
    else:
        s = rng.choice(["0x", "0o", "0b", "0X", "0O", "0B", "0"]) + rng.choice(
            ["", "0", "1", "7", "8", "f", "F", "g", "z", "_", "é"]) * rng.randrange(0, 3)
    return "from_str %d %s" % (bits, tokY(s))


# ------------------------------------------------------------------ formatting
def fmt_value(rng, bits, t):
    m = 1 << bits
    mx = FMT_MAX[t]
    r = rng.random()
    if bits == 0:
        return 0
    if r < 0.45:
        # chunk boundaries
        kmax = max(1, bits // (mx.bit_length() - 1) + 1)
        k = rng.randrange(0, kmax + 1)
        v = mx ** k * rng.choice([1, 1, 2, mx - 1, rng.randrange(1, mx)]) + rng.choice(
            [-1, 0, 1, mx - 1, rng.randrange(0, mx), mx ** max(0, k - 1)])
        return max(0, v) % m
    if r < 0.55:
        # zero chunks in the middle
        kmax = max(1, bits // (mx.bit_length() - 1) + 1)
        return sum(rng.choice([0, 0, 1, mx - 1, rng.randrange(mx)]) * mx ** i for i in range(kmax + 1)) % m
    return C.rand_value(rng, bits)


def fmt_line(f, bits, t, plus, alt, zero, fa, w, v):
    return "%s %d Z:%x B:%d B:%d B:%d Z:%x B:%d Z:%x %s" % (
        f, bits, t, plus, alt, zero, fa, 0 if w is None else 1, 0 if w is None else w, C.tokU(bits, v))


def rand_fspec(rng):
    plus = int(rng.random() < 0.25)
    alt = int(rng.random() < 0.4)
    zero = int(rng.random() < 0.3)
    fa = rng.choice([0, 0, 0, 1, 2, 3, 4, 5, 6, 7, 8])
    w = rng.choice([None, None, 0, 1, 7, 80, rng.randrange(0, 140)])
    return plus, alt, zero, fa, w


def case_fmt(rng, bits, f, t=None):
    if t is None:
        t = rng.randrange(6)
    plus, alt, zero, fa, w = rand_fspec(rng)
    v = fmt_value(rng, bits, t)
    if w is not None and rng.random() < 0.3 and v:
        # width around the printed length
        radix = {0: 10, 1: 10, 2: 16, 3: 16, 4: 8, 5: 2}[t]
        w = max(0, len(digits_le(v, radix)) + plus + (2 if alt and t >= 2 else 0) + rng.choice([-1, 0, 1, 2, 3]))
    return fmt_line(f, bits, t, plus, alt, zero, fa, w, v)


def fmt_grid(rng, bits, f, stride):
    out = []
    i = 0
    for t in range(6):
        for plus in (0, 1):
            for alt in (0, 1):
                for zero in (0, 1):
                    for fa in range(9):
                        for w in [None] + WIDTHS_FMT:
                            i += 1
                            if stride > 1 and rng.randrange(stride) != 0:
                                continue
                            out.append(fmt_line(f, bits, t, plus, alt, zero, fa, w, fmt_value(rng, bits, t)))
    return out


def corpus():
    out = []
    # F6 (fixed): base-64 alphabet 'a'..='z'
    out.append("from_str_radix 64 Z:40 Y:67")
    for ch in "ghzZaA09+-/,_":
        out.append("from_str_radix 64 Z:40 %s" % tokY(ch))
        out.append("from_str_radix 64 Z:25 %s" % tokY(ch))
        out.append("from_str_radix 64 Z:24 %s" % tokY(ch))
    # empty strings / empty digit lists, bases 0 and 1
    for bits in (0, 1, 64, 65):
        for radix in (0, 1, 2, 10, 36, 37, 64, 65):
            out.append("from_str_radix %d Z:%x Y:" % (bits, radix))
            out.append("from_str_radix %d Z:%x %s" % (bits, radix, tokY("0")))
            out.append("from_str_radix %d Z:%x %s" % (bits, radix, tokY("!")))
        for b in (0, 1, 2, 10):
            for f in ("from_base_le", "from_base_be"):
                out.append("%s %d Z:%x L:" % (f, bits, b))
                out.append("%s %d Z:%x L:0" % (f, bits, b))
                out.append("%s %d Z:%x L:1" % (f, bits, b))
                out.append("%s %d Z:%x L:0,0,1" % (f, bits, b))
                out.append("%s %d Z:%x L:1,0,0" % (f, bits, b))
            for f in ("to_base_le", "to_base_be", "roundtrip_le", "roundtrip_be"):
                out.append("%s %d %s Z:%x" % (f, bits, C.tokU(bits, (1 << bits) - 1), b))
    # overflow by exactly one, by one digit
    for bits in (1, 8, 63, 64, 65, 128, 256):
        m = 1 << bits
        for radix in (2, 10, 16, 36, 64):
            for v in (m - 1, m, m + 1, m * radix - 1, m * radix):
                ds = digits_le(v, radix)
                out.append("from_base_le %d Z:%x %s" % (bits, radix, C.tokL(ds)))
                out.append("from_base_be %d Z:%x %s" % (bits, radix, C.tokL(ds[::-1])))
                s = "".join((A36 if radix <= 36 else A64)[d] if d < 62 else "+/"[d - 62] for d in ds[::-1])
                out.append("from_str_radix %d Z:%x %s" % (bits, radix, tokY(s)))
        out.append("from_str %d %s" % (bits, tokY("%d" % (m - 1))))
        out.append("from_str %d %s" % (bits, tokY("%d" % m)))
        out.append("from_str %d %s" % (bits, tokY("0x%x" % (m - 1))))
        out.append("from_str %d %s" % (bits, tokY("0X%X" % m)))
        out.append("from_str %d %s" % (bits, tokY("0o%o" % (m - 1))))
        out.append("from_str %d %s" % (bits, tokY("0b" + bin(m)[2:])))
    # formatter chunk boundaries
    for bits in (64, 65, 127, 128, 129, 256):
        m = 1 << bits
        for t in range(6):
            mx = FMT_MAX[t]
            for v in (0, 1, mx - 1, mx, mx + 1, mx * mx - 1, mx * mx, mx * mx + 1, mx * mx + mx, m - 1):
                out.append(fmt_line("fmt", bits, t, 0, 0, 0, 0, None, v % m))
                out.append(fmt_line("fmt", bits, t, 0, 1, 1, 0, 80, v % m))
                if bits <= 128:
                    out.append(fmt_line("fmt_ref", bits, t, 0, 1, 1, 0, 80, v % m))
    return [ln for ln in out if ln not in SUSPECT]


def gen(rng, tier):
    quick = tier == "quick"
    widths = C.WIDTHS_QUICK if quick else C.WIDTHS_QUICK + C.WIDTHS_MORE
    reps = 1 if quick else 8
    out = []
    for bits in widths:
        big = bits >= 1024
        for _ in range(reps):
            for f in ("to_base_le", "to_base_be", "roundtrip_le", "roundtrip_be"):
                for _ in range(2 if big else 6):
                    out.append(case_to_base(rng, bits, f))
            for f in ("from_base_le", "from_base_be"):
                for _ in range(4 if big else 14):
                    out.append(case_from_base(rng, bits, f))
            for _ in range(4 if big else 30):
                out.append(case_from_str_radix(rng, bits))
            for _ in range(3 if big else 14):
                out.append(case_from_str(rng, bits))
            for _ in range(4 if big else 30):
                out.append(case_fmt(rng, bits, "fmt"))
            if bits <= 128:
                for _ in range(12):
                    out.append(case_fmt(rng, bits, "fmt_ref"))
        # every radix once per width
        if not big:
            for radix in range(0, 66):
                out.append(case_from_str_radix(rng, bits, radix))
            for t in range(6):
                out.append(case_fmt(rng, bits, "fmt", t))
    # the whole format grid on ruint and on u128
    for bits in ((8, 128) if quick else (1, 8, 64, 65, 128, 256)):
        stride = 4 if quick else 1
        out += fmt_grid(rng, bits, "fmt", stride)
        if bits <= 128:
            out += fmt_grid(rng, bits, "fmt_ref", stride)
    return [ln for ln in out if ln not in SUSPECT]


def nontrivial(line):
    p = line.split()
    if p[1] == "0":
        return False
    last = p[-1]
    if last.startswith("Y:"):
        return len(last) > 2
    if last.startswith("L:") or p[2].startswith("L:"):
        t = last if last.startswith("L:") else p[2]
        return any(x not in ("", "0") for x in t[2:].split(","))
    return True


def known_class(finding, line):
    return False
