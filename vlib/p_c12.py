"""C12 — gcd / lcm / gcd_extended / Lehmer matrices: case generator and metadata."""
from . import common as C

PID = "C12"
BIN = "c12"
RUNMOD = "RunC12"
LEVEL = "proof"
RULE = ("operand pairs built from chosen quotient sequences (all ones = Fibonacci-like, small, mixed with "
        "quotients 2^k up to 2^70, exactly one huge quotient), a=b, a=b+-1, common factors 2^k and large odd "
        "factors, coinciding leading 64/128 bits, zeros, boundary-biased randoms, at every harness width x "
        "{Uint::gcd,lcm,gcd_extended, algorithms::gcd,gcd_extended,inv_mod, LehmerMatrix::from+apply}; direct "
        "calls of from_u64 / from_u64_prefix / from_u128_prefix / apply / apply_u128 / compose with boundary "
        "words (2^32 limit, 2^63, equal words, quotient sequences that stop on each selection branch); a case "
        "is non-trivial when BITS>0 and some operand is not 0/1; distinct = distinct case lines")
TRUSTED = ["Coq 8.16.1 kernel + vm_compute",
           "hand-written Gallina model coq/Model/{Base,Word,Limbs,Add,Conv,Shift,Div*,GcdMatrix,Gcd}.v",
           "correspondence harness harness/src/bin/c12.rs + vlib (python) translation of tokens",
           "rustc/LLVM u64/u128 semantics"]
ASSUMPTIONS = ["u64/u128 arithmetic modelled as Z arithmetic with explicit wrap / overflow checks",
               "BITS + 63 does not overflow usize"]
EXPLANATION = ("Theorem C12_holds: forall wf call, spec call (run call) = true, no hypothesis left (division contract = "
               "PfDiv.div_kernel_spec, Lehmer step = PfGcdMatrix.LehmerStepOK_holds): gcd/lcm by induction on the loop fuel "
               "with the halving product a*b; gcd_extended by the linear cofactor invariant mod 2^BITS; inv_mod by cofactor "
               "magnitudes (a*T1 + b*T0 = m) and the sign flag; matrices by the cofactor invariants of the Euclid sequence "
               "on the 64-bit prefixes (unimodularity, SWAR halves < 2^32, Jebelean's exit tests valid for every continuation "
               "of the prefixes); the correspondence run evaluates model and spec on the implementation's actual outputs "
               "inside coqc")

SUSPECT = []

# operand pairs (num, modulus) on which weakening one of Jebelean's exactness tests in from_u64_prefix changes
# the answer (found by the C10 engineer with mutated tracers; ~1 in 10^5 among structured pairs)
JEBELEAN_WITNESSES = [
    (127, 'L:ffffffffffffffff,166bd98ab6', 'L:8000000000000000,46b0422ff2b85a8e'),
    (256, 'L:0,fffffffffe000000,ffffffffffffffff,19eb485e88', 'L:ffffffffffffffff,1ffffff,0,c2d5f6d58f390c17'),
    (128, 'L:6eae310cd2123b1,f1f75694056f8c8f', 'L:f1b4b4d11e26daa2,f57229fc0fc14f2e'),
    (128, 'L:ffffffffffffffff,155198b866', 'L:0,a26903a1764a43d0'),
    (129, 'L:fffffffffc000000,201999067,0', 'L:3ffffff,f5604ad5883e2ad2,1'),
    (129, 'L:ffffffffffffffff,144ff5c563,0', 'L:0,ab23aca7583edb7e,1'),
    (256, 'L:ffffffffffffffff,ffffffffffffffff,ffffffffffffffff,d266a303f', 'L:0,0,0,d7d728e75b835cc3'),
    (256, 'L:0,0,fffffffffff80000,e2fd9930b', 'L:ffffffffffffffff,ffffffffffffffff,7ffff,aa5b91837706d0b2'),
    (128, 'L:22dd4200de5ad099,549f88b9b40194b2', 'L:4a71a97255011806,dba6f4b8e51f4edc'),
    (256, 'L:ffffffffffffffff,ffffffffffffffff,ffffffffffffffff,a4bd55f16d', 'L:0,0,0,f6e0082640a7154b'),
    (127, 'L:0,17e3496938', 'L:7fffffffffffffff,69390676c25c6aa0'),
    (256, 'L:0,fffffe0000000000,ffffffffffffffff,1379198200', 'L:ffffffffffffffff,1ffffffffff,0,809e4cbfa439b1ab'),
    (128, 'L:ffffffffffffffff,f32b2b4ef', 'L:0,89cab6d244fb8b2b'),
    (128, 'L:fffffc0000000000,1cef26a33f', 'L:3ffffffffff,d029441eb4934c56'),
    (256, 'L:0,ffffffff80000000,ffffffffffffffff,27fbfae76', 'L:ffffffffffffffff,7fffffff,0,cee07c2590f252d6'),
    (256, 'L:0,0,fffffffffffffffc,fa8573fac', 'L:ffffffffffffffff,ffffffffffffffff,3,eee841389391359d'),
    (192, 'L:ffffffffffffffff,ffffffffffffffff,1b2fb5afc', 'L:0,0,ea3b5d7b433d12b2'),
    (192, 'L:0,0,40001783e1', 'L:ffffffffffffffff,ffffffffffffffff,af90810e687aa98b'),
    (129, 'L:0,444ad804e8,0', 'L:ffffffffffffffff,6b0329e1349aaa1f,1'),
    (128, 'L:0,4e566a90a', 'L:ffffffffffffffff,e87817b58ef138df'),
    (192, 'L:f800000000000000,ffffffffffffffff,5eec30d7c8', 'L:7ffffffffffffff,0,d5d74acd4706f35b'),
    (256, 'L:0,fffffffff0000000,ffffffffffffffff,2e2de0cc34', 'L:ffffffffffffffff,fffffff,0,c36fe4bc297dc009'),
    (129, 'L:50dddd57e35336cb,53f09745d48868f3,0', 'L:85f2c7889087b9b4,ebd7b26ad902554f,1'),
    (128, 'L:0,3ee4ffbbae', 'L:ffffffffffffffff,833a088da75226e6'),
    (192, 'L:0,fe00000000000000,7ce0d7a819b', 'L:ffffffffffffffff,1ffffffffffffff,9760563e519d23ff'),
    (192, 'L:43435cc52eae05cf,10c4759482c9cbc,6b4013ef254b0c4e', 'L:5e8766ed88daf401,90fbbd119c1caaf7,f3fe39c0519088f5'),
    (127, 'L:ffffffffe0000000,14ba2b145f', 'L:800000001fffffff,687715c2a5e02ed4'),
    (128, 'L:ffffffffffffffff,398f35c9f53', 'L:0,ac0bbed35064b165'),
]

WFNS = ["gcd", "lcm", "gcd_extended", "alg_gcd", "alg_gcd_extended", "alg_inv_mod"]
M64 = (1 << 64) - 1
M128 = (1 << 128) - 1
LIM = 1 << 32


def fib_pair(limit):
    """largest consecutive Fibonacci pair (F_{k+1}, F_k) below limit"""
    a, b = 1, 0
    while a + b < limit:
        a, b = a + b, a
    return a, b


def draw_q(rng, style):
    if style == "ones":
        return 1
    if style == "small":
        return rng.choice([1, 1, 1, 2, 2, 3, 4])
    r = rng.random()
    if r < 0.7:
        return rng.choice([1, 1, 1, 2, 3, 5])
    if r < 0.8:
        return rng.randrange(1, 1 << 16)
    if r < 0.9:
        return (1 << rng.randrange(1, 71)) + rng.choice([-1, 0, 1])
    return rng.getrandbits(rng.randrange(1, 66)) + 1


def cf_pair(rng, bits, style, g=1):
    """(a, b), a >= b < 2^bits, whose Euclidean quotient sequence is drawn per `style`"""
    if bits == 0:
        return 0, 0
    m = 1 << bits
    if g >= m:
        g = 1
    a, b = g, 0
    huge_at = rng.randrange(0, max(1, int(bits / 1.5))) if style == "onehuge" else -1
    i = 0
    while True:
        if style == "onehuge":
            q = ((1 << rng.randrange(20, 80)) + rng.getrandbits(16)) if i == huge_at else rng.choice([1, 1, 2])
        else:
            q = draw_q(rng, style)
        if b == 0 and q == 1:
            q = 2
        na, nb = q * a + b, a
        if na >= m:
            break
        a, b = na, nb
        i += 1
    return a, b


def pairs(rng, bits):
    """the directed operand pairs for one width (a >= b mostly)"""
    m = 1 << bits
    out = []
    if bits == 0:
        return [(0, 0)]
    out.append(fib_pair(m))
    f = fib_pair(max(2, m >> (bits // 3)))
    k = rng.randrange(1, max(2, m // max(1, f[0])))
    out.append((f[0] * k, f[1] * k))
    for style in ("ones", "small", "mixed", "mixed", "onehuge", "onehuge"):
        out.append(cf_pair(rng, bits, style))
    # common factors
    gk = 1 << rng.randrange(0, bits)
    out.append(cf_pair(rng, bits, "mixed", gk))
    godd = rng.getrandbits(max(1, bits // 2)) | 1
    out.append(cf_pair(rng, bits, "small", godd))
    out.append(cf_pair(rng, bits, "mixed", godd * (1 << rng.randrange(0, max(1, bits // 4)))))
    # a = b, a = b +- 1
    x = C.rand_value(rng, bits)
    out.append((x, x))
    out.append((x, (x - 1) % m))
    out.append(((x + 1) % m, x))
    out.append((m - 1, m - 2 if m > 1 else 0))
    # one huge quotient at the start
    out.append((C.rand_value(rng, bits), rng.randrange(0, min(m, 1 << 20))))
    out.append((rng.getrandbits(bits), rng.getrandbits(max(1, bits // 2))))
    # coinciding leading 64 / 128 bits
    for lead in (64, 128):
        if bits > lead:
            top = (rng.getrandbits(lead) | (1 << (lead - 1))) << (bits - lead)
            lo1, lo2 = rng.getrandbits(bits - lead), rng.getrandbits(bits - lead)
            out.append((top + max(lo1, lo2), top + min(lo1, lo2)))
            sh = rng.randrange(0, bits - lead)
            out.append(((top + max(lo1, lo2)) >> sh, (top + min(lo1, lo2)) >> sh))
    # zeros and randoms
    out.append((0, 0))
    out.append((x, 0))
    out.append((C.rand_value(rng, bits), C.rand_value(rng, bits)))
    out.append((rng.getrandbits(bits), rng.getrandbits(bits)))
    return [(a % m, b % m) for a, b in out]


def line2(f, bits, a, b):
    return "%s %d %s %s" % (f, bits, C.tokU(bits, a), C.tokU(bits, b))


def mat_tok(m):
    return "%s %s %s %s B:%d" % (C.tokZ(m[0]), C.tokZ(m[1]), C.tokZ(m[2]), C.tokZ(m[3]), 1 if m[4] else 0)


def ref_from_u64(r0, r1):
    """plain extended Euclid (used only to pick plausible matrices for apply/compose)"""
    if r1 == 0:
        return (1, 0, 0, 1, True)
    q00, q01, q10, q11 = 1, 0, 0, 1
    while True:
        q = r0 // r1
        r0 -= q * r1
        q00 += q * q10
        q01 += q * q11
        if r0 == 0:
            return (q10, q11, q00, q01, False)
        q = r1 // r0
        r1 -= q * r0
        q10 += q * q00
        q11 += q * q01
        if r1 == 0:
            return (q00, q01, q10, q11, True)


def partial_matrix(rng, lim=32):
    """matrix of a partial Euclid run: entries < 2^lim"""
    r0 = rng.getrandbits(64) | (1 << 63)
    r1 = rng.getrandbits(64) % r0 + 1
    u0, v0, u1, v1, even = 1, 0, 0, 1, True
    steps = rng.randrange(0, 20)
    for _ in range(steps):
        if r1 == 0:
            break
        q = r0 // r1
        nu, nv = u0 + q * u1, v0 + q * v1
        if nu >> lim or nv >> lim:
            break
        r0, r1 = r1, r0 - q * r1
        u0, v0, u1, v1 = u1, v1, nu, nv
        even = not even
    return (u0, v0, u1, v1, even)


def prefix_cases(rng, n):
    out = []
    hi = 1 << 63
    # boundary words
    for a0 in (hi, hi + 1, M64 - 1, M64, hi + LIM, (hi | (LIM - 1))):
        for a1 in (0, 1, LIM - 1, LIM, LIM + 1, a0 - 1, a0, a0 // 2, a0 // 2 + 1, a0 // 3, hi - 1, (1 << 62) + 1,
                   LIM * LIM - 1 if False else (1 << 48), a0 - LIM, a0 - LIM + 1):
            if 0 <= a1 <= a0:
                out.append((a0, a1))
    # first quotient huge: a2 < LIMIT on the early exit
    for _ in range(n):
        a1 = rng.randrange(LIM, LIM << rng.randrange(1, 31))
        q = (M64 // a1) - rng.randrange(0, 3)
        r = rng.randrange(0, min(a1, LIM)) if rng.random() < 0.8 else rng.choice([0, 1, a1 - 1])
        a0 = q * a1 + r
        if hi <= a0 <= M64:
            out.append((a0, a1))
    # quotient sequences
    for _ in range(3 * n):
        style = rng.choice(["ones", "small", "mixed", "mixed", "onehuge"])
        a, b = cf_pair(rng, rng.choice([64, 64, 64, 60, 50, 40, 34]), style,
                       rng.choice([1, 1, 1, 2, 3, 1 << rng.randrange(0, 30), rng.getrandbits(20) | 1]))
        if a == 0:
            continue
        s = 64 - a.bit_length()
        fill = rng.choice([0, (1 << s) - 1, rng.getrandbits(s) if s else 0]) if s else 0
        fill2 = rng.choice([0, (1 << s) - 1, rng.getrandbits(s) if s else 0]) if s else 0
        a0, a1 = (a << s) + fill, (b << s) + fill2
        if a1 <= a0:
            out.append((a0, a1))
    for _ in range(n):
        a0 = rng.getrandbits(64) | hi
        out.append((a0, rng.randrange(0, a0 + 1)))
        out.append((a0, C.rand_limb(rng) % (a0 + 1)))
    return out


def direct(rng, n):
    out = []
    # from_u64
    f93 = fib_pair(1 << 64)
    cases = [(0, 0), (1, 0), (1, 1), (M64, 0), (M64, 1), (M64, M64), (M64, M64 - 1), f93, (f93[0], f93[1] - 1),
             (252, 105), (1 << 63, 1 << 62), (1 << 63, (1 << 63) - 1), (M64, LIM), (M64, LIM - 1), (LIM, LIM - 1),
             (M64, 2), (M64 - 1, 2), (M64, 3)]
    for _ in range(n):
        cases.append(cf_pair(rng, 64, rng.choice(["ones", "small", "mixed", "onehuge"]),
                             rng.choice([1, 1, 2, 6, 1 << rng.randrange(0, 40), rng.getrandbits(30) | 1])))
        x, y = C.rand_limb(rng), C.rand_limb(rng)
        cases.append((max(x, y), min(x, y)))
    cases += [(0, 1), (5, 7), (LIM, M64)]          # precondition violated (debug_assert)
    out += ["m_from_u64 64 %s %s" % (C.tokZ(a), C.tokZ(b)) for a, b in cases]
    # from_u64_prefix
    pc = prefix_cases(rng, n)
    pc += [((1 << 63) - 1, 5), (1 << 62, LIM), (1 << 63, M64)]      # preconditions violated
    out += ["m_from_u64_prefix 64 %s %s" % (C.tokZ(a), C.tokZ(b)) for a, b in pc]
    # from_u128_prefix
    c128 = [(0, 0), (1, 0), (1, 1), (M128, 0), (M128, M128), (M128, M128 - 1), (M128, 1 << 64), (1 << 64, M64),
            (1 << 127, (1 << 127) - 1), (M64, M64 - 1), (fib_pair(1 << 128)), (1 << 64, 1 << 32),
            ((1 << 96) + 1, (1 << 64) + 1), (5, 9)]
    for a0, a1 in pc[:: max(1, len(pc) // (2 * n))]:
        s = rng.randrange(0, 64)
        lo0, lo1 = rng.getrandbits(64), rng.getrandbits(64)
        r0, r1 = ((a0 << 64) | lo0) >> s, ((a1 << 64) | lo1) >> s
        if r1 <= r0:
            c128.append((r0, r1))
    for _ in range(n):
        c128.append(cf_pair(rng, rng.choice([128, 128, 127, 100, 65, 64, 30]), rng.choice(["ones", "small", "mixed", "onehuge"])))
        x, y = rng.getrandbits(128), rng.getrandbits(rng.randrange(1, 129))
        c128.append((max(x, y), min(x, y)))
    out += ["m_from_u128_prefix 128 %s %s" % (C.tokZ(a), C.tokZ(b)) for a, b in c128]
    # apply_u128 / compose
    mats = [(1, 0, 0, 1, True), (0, 1, 1, 0, False), (0, 1, 1, 1, False), (M64, M64, M64, M64, True),
            (M64, 0, 0, M64, False), (2, 5, 5, 12, False)]
    for _ in range(n):
        mats.append(partial_matrix(rng))
        mats.append(ref_from_u64(*sorted((rng.getrandbits(64), rng.getrandbits(64)), reverse=True)))
        mats.append((C.rand_limb(rng), C.rand_limb(rng), C.rand_limb(rng), C.rand_limb(rng), rng.random() < 0.5))
    for m in mats:
        a = rng.choice([0, 1, M128, rng.getrandbits(128), rng.getrandbits(64)])
        b = rng.choice([0, 1, M128, rng.getrandbits(128), rng.getrandbits(64)])
        out.append("m_apply_u128 128 %s %s %s" % (mat_tok(m), C.tokZ(a), C.tokZ(b)))
        o = rng.choice(mats)
        out.append("m_compose 64 %s %s" % (mat_tok(m), mat_tok(o)))
        out.append("m_compose 64 %s %s" % (mat_tok(partial_matrix(rng, 30)), mat_tok(partial_matrix(rng, 30))))
    return out


def width_cases(rng, bits, reps, keep=None):
    out = []
    m = 1 << bits
    light = bits >= 2048            # the model needs seconds per case there: one case per entry point + a few pairs
    for _ in range(reps):
        ps = pairs(rng, bits)
        if keep is not None and len(ps) > keep:
            ps = rng.sample(ps, keep)       # every category still occurs at many widths
        for (a, b) in ps:
            fs = rng.sample(WFNS, 2) if len(ps) > 4 else WFNS
            for f in fs:
                x, y = (a, b) if rng.random() < 0.6 else (b, a)
                out.append(line2(f, bits, x, y))
            out.append(line2("m_from", bits, max(a, b), min(a, b)))
    # every entry point at least once per width, on a non-trivial pair
    a, b = cf_pair(rng, bits, "mixed")
    for f in WFNS:
        out.append(line2(f, bits, b, a))
        if not light:
            out.append(line2(f, bits, a, b))
    out.append(line2("m_from", bits, a, b))
    if a != b:
        out.append(line2("m_from", bits, b, a))            # documented panic
    out.append("m_identity %d" % bits)
    # inv_mod: coprime pairs, modulus 0/1/2, num >= modulus
    for _ in range(1 if light else 3):
        mo = C.rand_value(rng, bits)
        nu = C.rand_value(rng, bits)
        out.append(line2("alg_inv_mod", bits, nu, mo))
        out.append(line2("alg_inv_mod", bits, nu, (mo | 1) % m))
    for mo in ((0, 1) if light else (0, 1, 2, 3, m - 1, m // 2)):
        out.append(line2("alg_inv_mod", bits, C.rand_value(rng, bits), mo % m))
    # apply with matrices of partial runs, the identity, boundary entries
    ms = [(1, 0, 0, 1, True), (0, 1, 1, 0, False), partial_matrix(rng), partial_matrix(rng, 16),
          partial_matrix(rng, 8), (M64, 1, 1, M64, True), (3, 1, 2, 1, False),
          (C.rand_limb(rng), C.rand_limb(rng), C.rand_limb(rng), C.rand_limb(rng), rng.random() < 0.5)]
    for mt in (ms[:3] if light else ms):
        a, b = C.rand_value(rng, bits), C.rand_value(rng, bits)
        out.append("m_apply %d %s %s %s" % (bits, mat_tok(mt), C.tokU(bits, a), C.tokU(bits, b)))
    if 0 < bits < 64:
        mk = (1 << bits) - 1
        for mt in ((mk, mk, mk, mk, True), (mk, 0, 1, mk, False), (mk + 1, 0, 0, 1, True), (1, 0, 0, mk + 1, True)):
            out.append("m_apply %d %s %s %s" % (bits, mat_tok(mt), C.tokU(bits, mk), C.tokU(bits, mk // 2)))
    return out


def corpus():
    out = []
    # doc / unit-test examples of the crate
    out.append(line2("alg_gcd", 129, 0x006d7c4641f88b729a97889164dd8d07db, 0x01de6ef6f3caa963a548d7a411b05b9988))
    out.append(line2("m_from", 129, 0x01de6ef6f3caa963a548d7a411b05b9988, 0x006d7c4641f88b729a97889164dd8d07db))
    out.append(line2("gcd", 128, 0, 0))
    for bits in (0, 1, 63, 64, 65, 127, 128, 129, 192, 256, 512):
        m = 1 << bits
        f = fib_pair(m)
        for fn in WFNS + ["m_from"]:
            out.append(line2(fn, bits, f[0], f[1]))
            out.append(line2(fn, bits, m - 1, (m - 1) // 2))
            out.append(line2(fn, bits, m - 1, m - 1))
            out.append(line2(fn, bits, m - 1, 0))
            out.append(line2(fn, bits, m // 2, m // 2))
        for fn in WFNS:
            out.append(line2(fn, bits, 0, m - 1))
            out.append(line2(fn, bits, (m - 1) // 3, m - 1))
    for bits, n, m in JEBELEAN_WITNESSES:
        vn, vm = C.from_limbs([int(x, 16) for x in n[2:].split(",")]), C.from_limbs([int(x, 16) for x in m[2:].split(",")])
        out.append("alg_inv_mod %d %s %s" % (bits, n, m))
        out.append("alg_gcd_extended %d %s %s" % (bits, m, n))
        out.append("gcd %d %s %s" % (bits, n, m))
        out.append(line2("m_from", bits, max(vn, vm), min(vn, vm)))
    return [ln for ln in out if ln not in SUSPECT]


def gen(rng, tier):
    quick = tier == "quick"
    widths = C.WIDTHS_QUICK if quick else C.WIDTHS_QUICK + C.WIDTHS_MORE
    out = []
    for bits in widths:
        reps = 1 if quick else (3 if bits <= 536 else 1)
        keep = 15 if quick else (None if bits <= 536 else (12 if bits < 2048 else 4))
        out += width_cases(rng, bits, reps, keep)
    out += direct(rng, 30 if quick else 400)
    return [ln for ln in out if ln not in SUSPECT]


def nontrivial(line):
    p = line.split()
    if p[0].startswith("m_") and p[0] not in ("m_from", "m_apply", "m_identity"):
        return any(t.startswith("Z:") and t[2:] not in ("0", "1") for t in p[2:])
    if p[1] == "0":
        return False
    return any(t.startswith("L") and any(x not in ("", "0", "1") for x in t.split(":")[1].split(","))
               for t in p[2:])


def known_class(finding, line):
    return False
