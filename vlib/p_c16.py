"""C16 — umbrella over the integration groups (written by tools_assemble_props.py)."""
PID = "C16"
PARTS = ['c16a', 'c16b', 'c16c']
LEVEL = "proof"
RULE = ("per integration group: every encoder/decoder entry point x every harness width x boundary-biased values / "
        "mutated encodings (see the part modules vlib/p_c16?.py); non-trivial and distinct as defined there")
TRUSTED = ["Coq 8.16.1 kernel + vm_compute", "hand-written Gallina models coq/Model/Codec{A,B,C}.v of ruint's glue",
           "format grammars coq/Spec/Fmt{A,B,C}.v", "third-party framing (rlp, alloy-rlp, fastrlp, serde_json, bincode, "
           "parity-scale-codec, ssz, borsh, der, postgres-types, num-bigint, ark-ff) modelled from the format definitions and "
           "validated end-to-end against the real crates by the correspondence run", "harness bins c16a/c16b/c16c"]
ASSUMPTIONS = ["BITS < 2^32 (plain SCALE), BITS < 2^30 (DER), BITS < 2^64 (RLP): bounds of the third-party length types",
               "little-endian 64-bit target"]
EXPLANATION = ("Theorems C16{A,B,C}_holds: for every group, forall wf call, spec call (run call) = true; the correspondence "
               "run calls the real trait impls end to end and evaluates model and spec on their outputs inside coqc")
