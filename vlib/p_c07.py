"""C07 — integer conversions (primitive <-> Uint, Uint <-> Uint, limb slices): generator + metadata."""
from . import common as C

PID = "C07"
BIN = "c07"
RUNMOD = "RunC07"
LEVEL = "proof"
RULE = ("for every (primitive type, BITS) pair the boundaries 2^k, 2^k+-1 around min(type width, BITS), "
        "BITS and the type width, 0, +-1, T::MIN, T::MAX, mixed with uniform values, through "
        "try_from/uint_try_from/from/wrapping_from/saturating_from; every Uint value class (0, 1, "
        "2^c-1, 2^c, 2^c+1 around the target capacity, MAX, boundary-biased random) into all 13 "
        "primitive targets through T::try_from(Uint/&Uint)/uint_try_to/to/wrapping_to/saturating_to; "
        "Uint<->Uint on every harness width x the grid {0,1,7,8,63,64,65,128,129,256} both directions; "
        "limb slices of every length 0..LIMBS+2 with top limb at MASK/MASK+1 and zero/non-zero tails; "
        "a case is non-trivial when BITS>0 and some argument value is not 0/1")
TRUSTED = ["Coq 8.16.1 kernel + vm_compute",
           "hand-written Gallina model coq/Model/{Base,Word,Conv}.v",
           "correspondence harness harness/src/bin/c07.rs + vlib (python) translation of tokens",
           "rustc/LLVM primitive integer cast semantics (as, <<, |, leading_zeros)"]
ASSUMPTIONS = ["64-bit target: usize/isize are 64 bits wide",
               "`x as T` between primitive integers modelled as reduction mod 2^w (two's complement "
               "when signed)",
               "BITS + 63 does not overflow usize",
               "Display text of the error enums and the panic message of Uint::from/to are not compared "
               "(only Ok/Err variant, BITS and payload values / panic-or-not)"]
EXPLANATION = ("Theorem C07_holds: forall wf call, spec call (run call) = true, proved for all BITS>=0, all "
               "13 primitive types, all in-range source values, all canonical Uint operands, all "
               "source/target widths and all limb slices of any length; the correspondence run evaluates "
               "model and spec on the implementation's actual outputs (error payloads included) inside coqc")

# type code -> (width, signed)
TYPES = {0: (1, False), 1: (8, False), 2: (16, False), 3: (32, False), 4: (64, False),
         5: (128, False), 6: (64, False), 7: (8, True), 8: (16, True), 9: (32, True),
         10: (64, True), 11: (128, True), 12: (64, True)}
GRID = [0, 1, 7, 8, 63, 64, 65, 128, 129, 256]
PF = ["pf_try_from", "pf_uint_try_from", "pf_from", "pf_wrapping_from", "pf_saturating_from"]
PT = ["pt_try_from", "pt_uint_try_to", "pt_to", "pt_wrapping_to", "pt_saturating_to"]
UUF = ["uu_uint_try_from", "uu_from", "uu_wrapping_from", "uu_saturating_from", "uu_from_uint",
       "uu_checked_from_uint"]
UUT = ["uu_uint_try_to", "uu_to", "uu_wrapping_to", "uu_saturating_to"]
SL = ["from_limbs_slice", "checked_from_limbs_slice", "wrapping_from_limbs_slice",
      "overflowing_from_limbs_slice", "saturating_from_limbs_slice"]

# suspected genuine defects of the crate (excluded from gen/corpus); none found
SUSPECT = []


def tmin(ty):
    w, s = TYPES[ty]
    return -(1 << (w - 1)) if s else 0


def tmax(ty):
    w, s = TYPES[ty]
    return (1 << (w - 1)) - 1 if s else (1 << w) - 1


def zt(x):
    return "Z:-%x" % (-x) if x < 0 else "Z:%x" % x


def src_values(rng, ty, bits):
    """boundary values of the (type, BITS) pair, clipped to the type's range"""
    w, s = TYPES[ty]
    lo, hi = tmin(ty), tmax(ty)
    ks = {min(w, bits), bits, w, w - 1, 64, 63}
    if bits > 0:
        ks.add(bits - 1)
        ks.add((bits - 1) // 64 * 64)
    vals = {0, 1, -1, lo, hi, lo + 1, hi - 1}
    for k in ks:
        if k < 0 or k > 130:
            continue
        for d in (-1, 0, 1):
            vals.add((1 << k) + d)
            vals.add(-(1 << k) + d)
    # multi-limb patterns for the u128/i128 special case
    if w == 128:
        m = C.mask(bits)
        for hi_l in (m, m + 1, 3, 1, (1 << 63), C.B64 - 1):
            for lo_l in (5, 0, C.B64 - 1):
                v = ((hi_l % C.B64) << 64) | lo_l
                vals.add(v)
                vals.add(-v)
    for _ in range(2):
        vals.add(rng.randrange(lo, hi + 1))
        vals.add(rng.randrange(lo, hi + 1) >> rng.randrange(w))
    out = sorted(v for v in vals if lo <= v <= hi)
    return out


def uint_values(rng, bits, cap_list):
    """values of Uint<bits> around the given capacities"""
    m = 1 << bits
    vals = {0, 1 % m, m - 1, (m - 2) % m, m >> 1}
    for c in cap_list:
        for d in (-1, 0, 1):
            v = (1 << c) + d
            if 0 <= v < m:
                vals.add(v)
        # high limbs set, low limb small / with sign bit patterns
        v = (1 << c) | 0x80
        if v < m:
            vals.add(v)
    for _ in range(2):
        vals.add(C.rand_value(rng, bits))
    return sorted(vals)


def slice_cases(rng, bits, n):
    """a limb slice of length n for width bits, biased to the overflow boundary"""
    L = C.nlimbs(bits)
    mk = C.mask(bits)
    s = [C.rand_limb(rng) for _ in range(n)]
    r = rng.random()
    if n >= L and L > 0:
        if r < 0.25:
            s[L - 1] = mk
        elif r < 0.5:
            s[L - 1] = (mk + 1) % C.B64 if mk + 1 < C.B64 else mk
        elif r < 0.6:
            s[L - 1] = rng.getrandbits(64) & mk
        elif r < 0.7:
            s[L - 1] = 0
    if n > L:
        t = rng.random()
        if t < 0.5:
            for i in range(L, n):
                s[i] = 0
        elif t < 0.75:
            for i in range(L, n):
                s[i] = 0
            s[rng.randrange(L, n)] = rng.choice([1, 1 << 63, C.B64 - 1])
        if n >= L > 0 and rng.random() < 0.5:
            s[L - 1] &= mk
    return s


def corpus():
    out = []
    # F4 (fixed): TryFrom<u128> payload with LIMBS = 2 and a partial top limb
    out.append("pf_try_from 65 Z:5 Z:30000000000000005")
    for bits in (65, 66, 127):
        for f in ("pf_try_from", "pf_wrapping_from", "pf_uint_try_from"):
            out.append("%s %d Z:5 Z:%x" % (f, bits, (3 << 64) + 5))
            out.append("%s %d Z:5 Z:%x" % (f, bits, (1 << 128) - 1))
            out.append("%s %d Z:b Z:-%x" % (f, bits, (3 << 64) + 5))
            out.append("%s %d Z:b Z:-1" % (f, bits))
    # documented examples of from.rs
    out.append("pf_from 8 Z:2 Z:8e")
    out.append("pf_saturating_from 8 Z:2 Z:12c")
    out.append("pf_saturating_from 8 Z:8 Z:-a")
    out.append("pf_wrapping_from 8 Z:2 Z:12c")
    out.append("pf_wrapping_from 8 Z:8 Z:-a")
    out.append("uu_wrapping_to 256 Z:8 %s" % C.tokU(256, 0x1337cafec0d3))
    out.append("uu_saturating_from 8 Z:100 %s" % C.tokU(256, 0x7014b4c2d1f2))
    out.append("pt_wrapping_to 9 Z:7 L:12c")
    out.append("pt_saturating_to 31 Z:7 L:ff")
    # negative sources at widths above the source width (payload = x mod 2^w)
    for ty in (7, 8, 9, 10, 11, 12):
        for bits in (63, 64, 65, 128, 129, 256):
            out.append("pf_try_from %d Z:%x %s" % (bits, ty, zt(tmin(ty))))
            out.append("pf_wrapping_from %d Z:%x Z:-1" % (bits, ty))
    return [ln for ln in out if ln not in SUSPECT]


def gen(rng, tier):
    widths = C.WIDTHS_QUICK if tier == "quick" else C.WIDTHS_QUICK + C.WIDTHS_MORE
    reps = 1 if tier == "quick" else 6
    out = []
    for bits in widths:
        L = C.nlimbs(bits)
        for _ in range(reps):
            # primitive -> Uint
            for ty in TYPES:
                vals = src_values(rng, ty, bits)
                for f in PF:
                    out.append("%s %d Z:%x %s" % (f, bits, ty, zt(rng.choice(vals))))
                # the wide source types: every boundary value of the (type, BITS) pair, not a sample
                # (a slip at one exact value, e.g. u64::MAX given as u128 at BITS = 64, must be seen)
                if TYPES[ty][0] >= 64 and _ == 0:
                    for v in vals:
                        out.append("%s %d Z:%x %s" % (PF[0], bits, ty, zt(v)))
            # Uint -> primitive
            for ty, (w, s) in TYPES.items():
                vals = uint_values(rng, bits, [w, w - 1, 64, 63])
                for f in PT:
                    a = C.tokU(bits, rng.choice(vals))
                    if f == "pt_try_from":
                        out.append("%s %d Z:%x Z:%x %s" % (f, bits, ty, rng.randrange(2), a))
                    else:
                        out.append("%s %d Z:%x %s" % (f, bits, ty, a))
            # Uint <-> Uint
            for o in GRID:
                vals = uint_values(rng, o, [bits, bits - 1] if bits > 0 else [0])
                fs = rng.sample(UUF, 3)
                for f in fs:
                    out.append("%s %d Z:%x %s" % (f, bits, o, C.tokU(o, rng.choice(vals))))
                vals = uint_values(rng, bits, [o, o - 1] if o > 0 else [0])
                fs = rng.sample(UUT, 2)
                for f in fs:
                    out.append("%s %d Z:%x %s" % (f, bits, o, C.tokU(bits, rng.choice(vals))))
            # limb slices of every length 0..LIMBS+2
            for n in range(L + 3):
                for f in SL:
                    out.append("%s %d %s" % (f, bits, C.tokL(slice_cases(rng, bits, n))))
    return [ln for ln in out if ln not in SUSPECT]


def nontrivial(line):
    p = line.split()
    if p[1] == "0":
        return False
    f = p[0]
    if f.startswith("pf_"):
        return p[3] not in ("Z:0", "Z:1")
    t = p[-1]
    return any(x not in ("", "0", "1") for x in t.split(":")[1].split(","))


def known_class(finding, line):
    return False
