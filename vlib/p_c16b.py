"""C16 part B — encoders of the SCALE (plain + compact), SSZ, borsh and DER integrations:
case generator (part module of vlib/p_c16.py)."""
from . import common as C

BIN = "c16b"
RUNMOD = "RunC16B"
FEATURES = ["codecs_b"]

SUSPECT = []

SCALE_PLAIN = ["scale_encode", "scale_size_hint", "scale_max_encoded_len", "scale_roundtrip"]
COMPACT = ["scale_compact_encode", "scale_compact_size_hint", "scale_compact_roundtrip"]
SSZ = ["ssz_encode", "ssz_len", "ssz_roundtrip"]
BORSH = ["borsh_ser", "borsh_roundtrip"]
DER = ["der_encode", "der_value_len", "der_roundtrip", "der_to_int", "der_to_uint", "der_to_any"]
PRIM = ["scale_compact_prim", "ssz_prim", "borsh_prim", "der_prim"]


def nbytes(bits):
    return (bits + 7) // 8


def clip(vals, bits):
    m = 1 << bits
    out = []
    for v in vals:
        if 0 <= v < m and v not in out:
            out.append(v)
    return out


def mode_boundaries(bits):
    """SCALE compact mode boundaries"""
    return clip([0, 1, 63, 64, (1 << 14) - 1, 1 << 14, (1 << 30) - 1, 1 << 30, (1 << 32) - 1, 1 << 32,
                 (1 << 56) - 1, 1 << 56, (1 << 64) - 1, 1 << 64, (1 << 120) - 1, 1 << 120,
                 (1 << 128) - 1, 1 << 128, (1 << bits) - 1], bits)


def byte_boundaries(bits, ks):
    out = []
    for k in ks:
        out += [(1 << (8 * k)) - 1, 1 << (8 * k), 1 << (8 * k - 1) if k > 0 else 0,
                (1 << (8 * k - 1)) - 1 if k > 0 else 0]
    return clip(out, bits)


def der_boundaries(bits):
    """top bit of the leading octet set / clear, zero, MAX"""
    return clip([0, 1, 127, 128, 255, 256, 0x7fff, 0x8000, (1 << bits) - 1, (1 << bits) >> 1,
                 ((1 << bits) >> 1) - 1 if bits > 1 else 0], bits)


def small_in_wide(rng, bits):
    if bits == 0:
        return 0
    k = rng.choice([1, 2, 5, 6, 7, 8, 13, 14, 15, 16, 29, 30, 31, 32, 33, 40, 56, 57, 64, 65])
    k = min(k, bits)
    v = rng.getrandbits(k)
    if rng.random() < 0.6:
        v |= 1 << (k - 1)
    return v


def some_values(rng, bits, n):
    out = []
    for _ in range(n):
        r = rng.random()
        if r < 0.4:
            out.append(small_in_wide(rng, bits))
        else:
            out.append(C.rand_value(rng, bits))
    return out


def ln(f, bits, v, extra=None):
    if extra is None:
        return "%s %d %s" % (f, bits, C.tokU(bits, v))
    return "%s %d %s %s" % (f, bits, extra, C.tokU(bits, v))


def corpus():
    out = []
    # F12 (fixed): compact size_hint underflowed above 256 bits; max_encoded_len below the length
    out.append("scale_compact_size_hint 512 L:0,0,0,0,0,0,0,1")
    for bits in (320, 512, 520):
        for v in (1 << 256, 1 << 264, (1 << 300) + 5, (1 << bits) - 1, 1 << (bits - 1)):
            out.append(ln("scale_compact_size_hint", bits, v))
            out.append(ln("scale_compact_encode", bits, v))
    for bits in (256, 64, 512, 8, 0, 1, 1024):
        for f in SCALE_PLAIN:
            out.append(ln(f, bits, (1 << bits) - 1))
            out.append(ln(f, bits, 0))
    # the compact limit: 535 is not a harness width; 520 (last supported), 536 (documented panic), above
    for bits in (520, 536, 1024, 1030):
        for v in (0, 63, 64, 1 << 30, (1 << bits) - 1, (1 << 519), 5):
            for f in COMPACT:
                out.append(ln(f, bits, v))
            out.append(ln("scale_compact_prim", bits, v, "Z:40"))
            out.append(ln("scale_compact_prim", bits, v, "Z:80"))
    # every mode boundary at a few widths, all compact calls
    for bits in (7, 8, 31, 64, 128, 256, 512, 520):
        for v in mode_boundaries(bits) + byte_boundaries(bits, range(0, nbytes(bits) + 1)):
            for f in COMPACT:
                out.append(ln(f, bits, v))
    # DER: 127/128/129-byte contents (long-form length) need 1024 bits
    for bits, vs in ((1024, [1 << 1007, (1 << 1008) - 1, 1 << 1008, 1 << 1015, (1 << 1016) - 1, 1 << 1016,
                             1 << 1023, (1 << 1024) - 1, 0, 1]),
                     (1030, [1 << 1015, (1 << 1016) - 1, (1 << 1024) - 1, 1 << 1024, (1 << 1030) - 1]),
                     (2048, [(1 << 2040) - 1, 1 << 2040, (1 << 2048) - 1, 1 << 2047]),
                     (4096, [(1 << 4096) - 1, 1 << 4095, 1 << 1016])):
        for v in vs:
            for f in DER:
                out.append(ln(f, bits, v))
            out.append(ln("der_prim", bits, v, "Z:80"))
    # the crate's own literals
    out.append("borsh_ser 256 Z:0 L:1,2,3,4")
    out.append("borsh_ser 256 Z:1 L:1,2,3,4")
    out.append("borsh_roundtrip 64 Z:0 L:1")
    for v in (0, 1, (1 << 64) - 1, (1 << 128) - 1, 1 << 127, 128, 255):
        out.append(ln("der_prim", 128, v, "Z:80"))
        out.append(ln("der_prim", 128, v, "Z:40"))
    return [x for x in out if x not in SUSPECT]


def gen(rng, tier):
    widths = C.WIDTHS_QUICK if tier == "quick" else C.WIDTHS_QUICK + C.WIDTHS_MORE
    quick = tier == "quick"
    nr = 2 if quick else 12
    out = []
    for bits in widths:
        by = nbytes(bits)
        ks = sorted(set([0, 1, 2, 3, 4, 5, 8, 9, 16, 17, by - 1, by] +
                        [rng.randrange(0, by + 1) for _ in range(3 if quick else 12)]))
        ks = [k for k in ks if 0 <= k <= by]
        if quick and len(ks) > 7:
            ks = sorted(rng.sample(ks, 7) + [by])
        # compact: every mode boundary, byte-count boundaries, small values in wide types
        cvals = mode_boundaries(bits) + byte_boundaries(bits, ks) + some_values(rng, bits, nr + 2)
        if quick:
            keep = mode_boundaries(bits)
            rest = [v for v in cvals if v not in keep]
            cvals = keep + rng.sample(rest, min(len(rest), 8))
        for v in clip(cvals, bits):
            for f in COMPACT:
                out.append(ln(f, bits, v))
        for v in clip(mode_boundaries(bits)[:6] + some_values(rng, bits, nr + 2) +
                      [(1 << 64) - 1, 1 << 64, (1 << 128) - 1, 1 << 128], bits):
            out.append(ln("scale_compact_prim", bits, v, rng.choice(["Z:40", "Z:80"])))
        # DER: sign-octet boundaries
        dvals = der_boundaries(bits) + byte_boundaries(bits, ks if not quick else ks[:4] + [by]) \
            + some_values(rng, bits, nr)
        if quick:
            keep = der_boundaries(bits)
            rest = [v for v in dvals if v not in keep]
            dvals = keep + rng.sample(rest, min(len(rest), 5))
        for v in clip(dvals, bits):
            for f in DER:
                out.append(ln(f, bits, v))
        for v in clip(der_boundaries(bits)[:5] + some_values(rng, bits, nr + 1) +
                      [(1 << 64) - 1, 1 << 64, 1 << 63, (1 << 128) - 1, 1 << 127], bits):
            out.append(ln("der_prim", bits, v, rng.choice(["Z:40", "Z:80"])))
        # fixed-width forms
        fvals = clip([0, (1 << bits) - 1, 1] + some_values(rng, bits, nr + 1), bits)
        for v in fvals:
            for f in SCALE_PLAIN + SSZ:
                out.append(ln(f, bits, v))
            for f in BORSH:
                out.append(ln(f, bits, v, "Z:%d" % rng.randrange(2)))
            out.append(ln("ssz_prim", bits, v, rng.choice(["Z:40", "Z:80"])))
            out.append(ln("borsh_prim", bits, v, rng.choice(["Z:40", "Z:80"])))
        if bits in (64, 128):
            for v in some_values(rng, bits, 6) + [(1 << bits) - 1, 0]:
                out.append(ln("ssz_prim", bits, v, "Z:%x" % bits))
                out.append(ln("borsh_prim", bits, v, "Z:%x" % bits))
    return [x for x in out if x not in SUSPECT]


def nontrivial(line):
    p = line.split()
    if p[1] == "0":
        return False
    for t in p[2:]:
        if t.startswith("L:") and any(x not in ("", "0") for x in t[2:].split(",")):
            return True
    return False


def known_class(finding, line):
    return False
