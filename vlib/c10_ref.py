"""Branch-tracing transliteration of ruint::algorithms::inv_mod (gcd/mod.rs, gcd/matrix.rs).
Used only to pick inputs that reach rare branches and to measure branch coverage of the
generated corpus; never an oracle."""

M64 = (1 << 64) - 1
LIMIT = 1 << 32
IDENTITY = (1, 0, 0, 1, True)


def from_u64(r0, r1, tr):
    if r1 == 0:
        tr.add("u64:identity")
        return IDENTITY
    q00, q01, q10, q11 = 1, 0, 0, 1
    while True:
        q = r0 // r1
        r0 -= q * r1
        q00 += q * q10
        q01 += q * q11
        if r0 == 0:
            tr.add("u64:odd")
            return (q10, q11, q00, q01, False)
        q = r1 // r0
        r1 -= q * r0
        q10 += q * q00
        q11 += q * q01
        if r1 == 0:
            tr.add("u64:even")
            return (q00, q01, q10, q11, True)


def from_u64_prefix(a0, a1, tr):
    k0, k1, even = 1 << 32, 1, True
    if a1 < LIMIT:
        tr.add("pre:a1<LIMIT")
        return IDENTITY
    q = a0 // a1
    a2 = a0 - q * a1
    k2 = k0 + q * k1
    if a2 < LIMIT:
        u2, v2 = k2 >> 32, k2 % LIMIT
        if a2 >= v2 and a1 - a2 >= u2:
            tr.add("pre:a2<LIMIT:ok")
            return (0, 1, u2, v2, False)
        tr.add("pre:a2<LIMIT:identity")
        return IDENTITY
    q = a1 // a2
    a3 = a1 - q * a2
    k3 = k1 + q * k2
    n = 0
    while a3 >= LIMIT:
        n += 1
        a1, a2, a3 = a2, a3, a2
        k0, k1, k2, k3 = k1, k2, k3, k2
        q = a3 // a2
        a3 -= q * a2
        k3 += q * k2
        if a3 < LIMIT:
            even = False
            break
        a1, a2, a3 = a2, a3, a2
        k0, k1, k2, k3 = k1, k2, k3, k2
        q = a3 // a2
        a3 -= q * a2
        k3 += q * k2
    tr.add("pre:loop0" if n == 0 else "pre:loopN")
    u0, u1, u2, u3 = k0 >> 32, k1 >> 32, k2 >> 32, k3 >> 32
    v0, v1, v2, v3 = k0 % LIMIT, k1 % LIMIT, k2 % LIMIT, k3 % LIMIT
    if even:
        if a1 - a2 >= u2 + u1:
            if a3 >= u3 and a2 - a3 >= v3 + v2:
                tr.add("pre:even:i+2")
                return (u2, v2, u3, v3, True)
            tr.add("pre:even:i+1")
            return (u1, v1, u2, v2, False)
        tr.add("pre:even:i")
        return (u0, v0, u1, v1, True)
    if a1 - a2 >= v2 + v1:
        if a3 >= v3 and a2 - a3 >= u3 + u2:
            tr.add("pre:odd:i+2")
            return (u2, v2, u3, v3, False)
        tr.add("pre:odd:i+1")
        return (u1, v1, u2, v2, True)
    tr.add("pre:odd:i")
    return (u0, v0, u1, v1, False)


def from_u128_prefix(r0, r1, tr):
    s = 128 - r0.bit_length()
    r0s = (r0 << s) & ((1 << 128) - 1)
    r1s = (r1 << s) & ((1 << 128) - 1)
    return from_u64_prefix(r0s >> 64, r1s >> 64, tr)


def matrix_from(a, b, tr):
    s = a.bit_length()
    if s <= 64:
        tr.add("from:u64")
        return from_u64(a, b, tr)
    if s <= 128:
        tr.add("from:u128")
        return from_u128_prefix(a, b, tr)
    tr.add("from:shift")
    return from_u128_prefix(a >> (s - 128), b >> (s - 128), tr)


def inv_mod(bits, num, modulus, tr):
    """Returns (result or None); tr is a set receiving branch tags."""
    W = 1 << bits
    if bits == 0 or modulus == 0:
        tr.add("inv:zero")
        return None
    a, b = modulus, num
    if b >= a:
        tr.add("inv:reduce")
        b %= a
    if b == 0:
        tr.add("inv:b0")
        return None
    t0, t1, even = 0, 1, True
    steps = 0
    while b != 0:
        steps += 1
        m = matrix_from(a, b, tr)
        if m == IDENTITY:
            tr.add("inv:euclid")
            q = a // b
            a, b = b, (a - q * b) % W
            t0, t1 = t1, (t0 - q * t1) % W
            even = not even
        else:
            tr.add("inv:lehmer:" + ("t" if m[4] else "f"))
            if m[4]:
                a, b = (m[0] * a - m[1] * b) % W, (m[3] * b - m[2] * a) % W
                t0, t1 = (m[0] * t0 - m[1] * t1) % W, (m[3] * t1 - m[2] * t0) % W
            else:
                a, b = (m[1] * b - m[0] * a) % W, (m[2] * a - m[3] * b) % W
                t0, t1 = (m[1] * t1 - m[0] * t0) % W, (m[2] * t0 - m[3] * t1) % W
            even ^= not m[4]
    tr.add("inv:steps>=3" if steps >= 3 else "inv:steps<3")
    if a == 1:
        tr.add("inv:some:even" if even else "inv:some:odd")
        return (modulus + t0) % W if even else t0
    tr.add("inv:none:gcd")
    return None


ALL_TAGS = ["u64:odd", "u64:even", "pre:a1<LIMIT", "pre:a2<LIMIT:ok", "pre:a2<LIMIT:identity",
            "pre:loop0", "pre:loopN", "pre:even:i+2", "pre:even:i+1", "pre:even:i", "pre:odd:i+2",
            "pre:odd:i+1", "pre:odd:i", "from:u64", "from:u128", "from:shift", "inv:zero",
            "inv:reduce", "inv:b0", "inv:euclid", "inv:lehmer:t", "inv:lehmer:f", "inv:steps>=3",
            "inv:some:even", "inv:some:odd", "inv:none:gcd"]
