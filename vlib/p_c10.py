"""C10 — modular arithmetic (reduce_mod, add_mod, mul_mod, pow_mod, inv_mod): generator + metadata."""
from math import gcd
from . import common as C
from . import c10_ref as R

PID = "C10"
BIN = "c10"
RUNMOD = "RunC10"
LEVEL = "proof"
RULE = ("moduli from {0,1,2,3,2^k,2^k+-1,2^BITS-1,2^BITS-2,boundary-biased,uniform} x operands from "
        "{0,1,m-1,m,m+1,2m,MAX,MAX-1,multiples of m,boundary-biased,uniform} (unreduced operands, sums and "
        "products overflowing 2^BITS, add_mod with a+b = m, 2^BITS, m+2^BITS), exponents 0,1,2,3,small, "
        "2^k, BITS-sized (short at wide widths), inv_mod with coprime / non-coprime / Fibonacci-like / "
        "large-quotient pairs, at every quick width x every entry point; non-trivial = BITS>0, modulus>1; "
        "distinct = distinct case lines")
TRUSTED = ["Coq 8.16.1 kernel + vm_compute",
           "hand-written Gallina model coq/Model/{Base,Word,Limbs,Add,Shift,Div*,Modular}.v and, for inv_mod, "
           "coq/Model/{Gcd,GcdMatrix}.v (gcd topic, C12)",
           "correspondence harness harness/src/bin/c10.rs + vlib (python) translation of tokens",
           "rustc/LLVM u64/u128 semantics"]
ASSUMPTIONS = ["2 * BITS + 63 does not overflow usize"]
EXPLANATION = ("Theorem C10_holds: forall wf call, spec call (run call) = true, for all BITS>=0, all (unreduced) "
               "operands and all moduli including 0 and 1, no hypotheses (division kernel = C14's theorem, inv_mod = "
               "C12's theorem about algorithms::inv_mod incl. the Lehmer matrices); spec is integer arithmetic (mod, "
               "pow by squaring proved equal to Z.pow mod, gcd); the correspondence run evaluates model and spec on "
               "the crate's actual outputs inside coqc")

SUSPECT = []
WITH_INV = True   # inv_mod constructor present in RunC10


def keep(l):
    return l not in SUSPECT and (WITH_INV or not l.startswith("inv_mod"))


# inv_mod inputs on which weakening one of Jebelean's exactness tests in Matrix::from_u64_prefix
# (dropping a cofactor term or a conjunct) changes the final answer; found by a search with
# mutated copies of the tracer vlib/c10_ref.py (such inputs are ~1 in 10^5 among structured pairs).
JEBELEAN_WITNESSES = [
    'inv_mod 127 L:ffffffffffffffff,166bd98ab6 L:8000000000000000,46b0422ff2b85a8e',  # even_c1
    'inv_mod 256 L:0,fffffffffe000000,ffffffffffffffff,19eb485e88 L:ffffffffffffffff,1ffffff,0,c2d5f6d58f390c17',  # even_c1
    'inv_mod 128 L:6eae310cd2123b1,f1f75694056f8c8f L:f1b4b4d11e26daa2,f57229fc0fc14f2e',  # even_c1
    'inv_mod 128 L:ffffffffffffffff,155198b866 L:0,a26903a1764a43d0',  # even_c1
    'inv_mod 129 L:fffffffffc000000,201999067,0 L:3ffffff,f5604ad5883e2ad2,1',  # even_c2
    'inv_mod 129 L:ffffffffffffffff,144ff5c563,0 L:0,ab23aca7583edb7e,1',  # even_c2
    'inv_mod 256 L:ffffffffffffffff,ffffffffffffffff,ffffffffffffffff,d266a303f L:0,0,0,d7d728e75b835cc3',  # even_c2
    'inv_mod 256 L:0,0,fffffffffff80000,e2fd9930b L:ffffffffffffffff,ffffffffffffffff,7ffff,aa5b91837706d0b2',  # even_c2
    'inv_mod 128 L:22dd4200de5ad099,549f88b9b40194b2 L:4a71a97255011806,dba6f4b8e51f4edc',  # odd_c1
    'inv_mod 256 L:ffffffffffffffff,ffffffffffffffff,ffffffffffffffff,a4bd55f16d L:0,0,0,f6e0082640a7154b',  # odd_c1
    'inv_mod 127 L:0,17e3496938 L:7fffffffffffffff,69390676c25c6aa0',  # odd_c1
    'inv_mod 256 L:0,fffffe0000000000,ffffffffffffffff,1379198200 L:ffffffffffffffff,1ffffffffff,0,809e4cbfa439b1ab',  # odd_c1
    'inv_mod 128 L:ffffffffffffffff,f32b2b4ef L:0,89cab6d244fb8b2b',  # odd_c2
    'inv_mod 128 L:fffffc0000000000,1cef26a33f L:3ffffffffff,d029441eb4934c56',  # odd_c2
    'inv_mod 256 L:0,ffffffff80000000,ffffffffffffffff,27fbfae76 L:ffffffffffffffff,7fffffff,0,cee07c2590f252d6',  # odd_c2
    'inv_mod 256 L:0,0,fffffffffffffffc,fa8573fac L:ffffffffffffffff,ffffffffffffffff,3,eee841389391359d',  # odd_c2
    'inv_mod 192 L:ffffffffffffffff,ffffffffffffffff,1b2fb5afc L:0,0,ea3b5d7b433d12b2',  # a2lim2
    'inv_mod 192 L:0,0,40001783e1 L:ffffffffffffffff,ffffffffffffffff,af90810e687aa98b',  # a2lim2
    'inv_mod 129 L:0,444ad804e8,0 L:ffffffffffffffff,6b0329e1349aaa1f,1',  # a2lim2
    'inv_mod 128 L:0,4e566a90a L:ffffffffffffffff,e87817b58ef138df',  # a2lim2
    'inv_mod 192 L:f800000000000000,ffffffffffffffff,5eec30d7c8 L:7ffffffffffffff,0,d5d74acd4706f35b',  # even_c2b
    'inv_mod 256 L:0,fffffffff0000000,ffffffffffffffff,2e2de0cc34 L:ffffffffffffffff,fffffff,0,c36fe4bc297dc009',  # even_c2b
    'inv_mod 129 L:50dddd57e35336cb,53f09745d48868f3,0 L:85f2c7889087b9b4,ebd7b26ad902554f,1',  # even_c2b
    'inv_mod 128 L:0,3ee4ffbbae L:ffffffffffffffff,833a088da75226e6',  # even_c2b
    'inv_mod 192 L:0,fe00000000000000,7ce0d7a819b L:ffffffffffffffff,1ffffffffffffff,9760563e519d23ff',  # odd_c2b
    'inv_mod 192 L:43435cc52eae05cf,10c4759482c9cbc,6b4013ef254b0c4e L:5e8766ed88daf401,90fbbd119c1caaf7,f3fe39c0519088f5',  # odd_c2b
    'inv_mod 127 L:ffffffffe0000000,14ba2b145f L:800000001fffffff,687715c2a5e02ed4',  # odd_c2b
    'inv_mod 128 L:ffffffffffffffff,398f35c9f53 L:0,ac0bbed35064b165',  # odd_c2b
]


def moduli(rng, bits):
    """Boundary moduli for this width."""
    M = 1 << bits
    out = {0, 1 % M, 2 % M, 3 % M, M - 1, (M - 2) % M, M >> 1, ((M >> 1) + 1) % M, ((M >> 1) - 1) % M}
    for k in {1, 31, 32, 33, 63, 64, 65, 127, 128, 129, bits - 1, bits // 2, bits - 64, bits - 63}:
        if 0 <= k < bits:
            out |= {(1 << k) % M, ((1 << k) + 1) % M, ((1 << k) - 1) % M}
    return sorted(out)


def rand_mod(rng, bits):
    M = 1 << bits
    r = rng.random()
    if r < 0.35:
        return rng.choice(moduli(rng, bits))
    if r < 0.5 and bits > 0:
        k = rng.randrange(bits)
        return ((1 << k) + rng.choice([-1, 0, 1])) % M
    if r < 0.6 and bits > 0:
        # short modulus: numerator much longer than divisor
        return rng.getrandbits(rng.randrange(1, bits + 1))
    if r < 0.7 and bits > 64:
        # top limb / normalisation boundaries for the Knuth path
        n = C.nlimbs(bits)
        l = [C.rand_limb(rng) for _ in range(rng.randrange(1, n + 1))]
        l[-1] = rng.choice([1, 1 << 63, (1 << 63) - 1, C.B64 - 1, 1 << 32])
        return C.from_limbs(l) % M
    return C.rand_value(rng, bits)


def rand_op(rng, bits, m):
    M = 1 << bits
    r = rng.random()
    if bits == 0:
        return 0
    if r < 0.30:
        return rng.choice([0, 1, m - 1, m, m + 1, 2 * m, 2 * m - 1, M - 1, M - 2, M - m, m >> 1]) % M
    if r < 0.40 and m > 0:
        return (m * rng.randrange(1, max(2, min(M // m, 1 << 64) + 1))) % M if m * 1 < M else m % M
    if r < 0.50 and m > 0:
        return (m * rng.randrange(0, max(1, M // m)) + rng.choice([0, 1, m - 1])) % M
    if r < 0.6 and m > 1:
        return rng.randrange(m)
    return C.rand_value(rng, bits)


def T(bits, v):
    return C.tokU(bits, v)


def fib_pair(rng, bits):
    """Consecutive Fibonacci-like numbers (all quotients 1: longest Euclid run) below 2^bits."""
    a, b = 1, rng.choice([1, 2, 3])
    lim = 1 << bits
    steps = rng.randrange(1, max(2, int(bits * 1.44)))
    for _ in range(steps):
        if a + b >= lim:
            break
        a, b = b, a + b
    return a, b          # a < b


def inv_cases(rng, bits, reps):
    out = []
    M = 1 << bits
    for _ in range(reps):
        m = rand_mod(rng, bits)
        a = rand_op(rng, bits, m)
        out.append((a, m))
    if bits == 0:
        return out
    for _ in range(reps + 1):
        m = rng.getrandbits(bits) | rng.choice([0, 1 << (bits - 1)])
        out.append((rng.getrandbits(bits), m))
    out += directed_inv(rng, bits)
    for _ in range(max(1, reps // 2)):
        # coprime by construction: a = inverse-friendly, m odd and a power of two, or neighbours
        m = C.rand_value(rng, bits) | 1
        out.append(((1 << rng.randrange(bits)) % M, m))
        m = C.rand_value(rng, bits)
        out.append(((m + 1) % M, m))
        out.append(((m - 1) % M, m))
        # common factor
        g = rng.choice([2, 3, 5, (1 << 32) + 1, (1 << 64) - 1, (1 << 61) - 1])
        x = C.rand_value(rng, bits) // g * g
        y = C.rand_value(rng, bits) // g * g
        out.append((x % M, y % M))
        # Fibonacci neighbours, both orders
        f0, f1 = fib_pair(rng, bits)
        out.append((f0 % M, f1 % M))
        out.append((f1 % M, f0 % M))
        # huge quotient (Lehmer step fails, full-precision Euclid step)
        small = rng.choice([1, 2, 3, 7, (1 << 31) - 1, (1 << 32) + 15, (1 << 63) + 9]) % M
        out.append((small, C.rand_value(rng, bits)))
        out.append((C.rand_value(rng, bits), small))
        # prime-like moduli
        for p in ((1 << 61) - 1, (1 << 127) - 1, (1 << 255) - 19, (1 << 64) - 59, (1 << 31) - 1, 65537):
            if p < M and rng.random() < 0.3:
                out.append((C.rand_value(rng, bits), p))
    return out


RARE = ["pre:a2<LIMIT:ok", "pre:a2<LIMIT:identity", "pre:loop0", "pre:even:i+1", "pre:even:i",
        "pre:odd:i+1", "pre:odd:i", "pre:even:i+2", "pre:odd:i+2", "inv:none:gcd", "inv:euclid"]


def directed_inv(rng, bits, per_tag=2, tries=400):
    """Random dense pairs, keeping those whose trace (vlib/c10_ref.py) hits a rare branch of the
    Lehmer machinery (selection only; the tracer is never used as an oracle)."""
    if bits < 40:
        return []
    M = 1 << bits
    need = {t: per_tag for t in RARE}
    out = []
    for _ in range(tries):
        if not any(need.values()):
            break
        r = rng.random()
        m = rng.getrandbits(bits) | (1 << (bits - 1)) if r < 0.5 else rng.getrandbits(rng.randrange(33, bits + 1))
        if r < 0.25:
            # a close to a simple fraction of m: a huge partial quotient early in the expansion
            a = (m // rng.choice([2, 3, 5, 7]) + rng.getrandbits(rng.randrange(1, 40))) % M
        elif r < 0.4:
            g = rng.choice([3, 5, 7, (1 << 32) + 15])
            a, m = (rng.getrandbits(bits) // g * g) % M, (m // g * g) % M
        else:
            a = rng.getrandbits(bits)
        tr = set()
        R.inv_mod(bits, a, m, tr)
        hit = [t for t in tr if need.get(t, 0) > 0]
        if hit:
            for t in hit:
                need[t] -= 1
            out.append((a, m))
    return out


def corpus():
    import random
    out = []
    for bits in (0, 1, 2, 63, 64, 65, 127, 128, 129, 192, 256, 512):
        M = 1 << bits
        ms = [0, 1 % M, 2 % M, M - 1, M >> 1, ((M >> 1) + 1) % M]
        for m in ms:
            ops = [0, 1 % M, (m - 1) % M, m % M, (m + 1) % M, M - 1]
            for a in ops:
                out.append("reduce_mod %d %s %s" % (bits, T(bits, a), T(bits, m)))
                out.append("inv_mod %d %s %s" % (bits, T(bits, a), T(bits, m)))
                for b in (M - 1, (m - a) % M):
                    out.append("add_mod %d %s %s %s" % (bits, T(bits, a), T(bits, b), T(bits, m)))
                    out.append("mul_mod %d %s %s %s" % (bits, T(bits, a), T(bits, b), T(bits, m)))
            for a in ((m - 1) % M, M - 1):
                for e in (0, 1 % M, 2 % M, 3 % M):
                    out.append("pow_mod %d %s %s %s" % (bits, T(bits, a), T(bits, e), T(bits, m)))
    # bits-sized exponents at small widths, short ones at large widths
    for bits, ebits in ((1, 1), (2, 2), (7, 7), (63, 63), (64, 64), (65, 65), (128, 32), (192, 16), (256, 12), (512, 5)):
        M = 1 << bits
        for m in (M - 1, ((M >> 1) + 1) % M):
            out.append("pow_mod %d %s %s %s" % (bits, T(bits, M - 2 if M > 2 else M - 1), T(bits, (1 << ebits) - 1), T(bits, m)))
            out.append("pow_mod %d %s %s %s" % (bits, T(bits, M - 1), T(bits, 1 << (ebits - 1)), T(bits, m)))
    # one full-width exponent (top bit only) at 128 bits: the loop runs BITS times
    out.append("pow_mod 128 %s %s %s" % (T(128, 3), T(128, 1 << 127), T(128, (1 << 127) - 1)))
    out += JEBELEAN_WITNESSES
    out = [l for l in out if keep(l)]
    random.Random(10).shuffle(out)     # fixed order; spreads the expensive cases over the coqc shards
    return out


def exps(rng, bits):
    """Exponents: 0, 1, 2 and one boundary / random exponent of `cap` bits; cap = BITS at small widths
    (the model's cost is ~1.5 * cap mul_mod evaluations inside coqc)."""
    M = 1 << bits
    if bits == 0:
        return [0]
    cap = bits if bits <= 66 else (24 if bits <= 130 else (12 if bits <= 260 else 5))
    out = [0, 1 % M, 2 % M]
    out.append(rng.choice([rng.getrandbits(cap) | (1 << (cap - 1)), (1 << cap) - 1, 1 << (cap - 1),
                           (1 << cap) - 2, (1 << (cap - 1)) + 1]) % M)
    return out


def gen(rng, tier):
    widths = C.WIDTHS_QUICK if tier == "quick" else C.WIDTHS_QUICK + C.WIDTHS_MORE
    scale = 1 if tier == "quick" else 4
    out = []
    for bits in widths:
        M = 1 << bits
        r = (5 if bits <= 66 else 3 if bits <= 260 else 2 if bits <= 600 else 1) * scale
        for _ in range(r):
            m = rand_mod(rng, bits)
            a, b = rand_op(rng, bits, m), rand_op(rng, bits, m)
            out.append("reduce_mod %d %s %s" % (bits, T(bits, a), T(bits, m)))
            out.append("reduce_mod %d %s %s" % (bits, T(bits, b), T(bits, m)))
            out.append("add_mod %d %s %s %s" % (bits, T(bits, a), T(bits, b), T(bits, m)))
            out.append("mul_mod %d %s %s %s" % (bits, T(bits, a), T(bits, b), T(bits, m)))
            # directed add_mod: reduced operands whose sum is m-1, m, m+1, 2m-2 (crosses 2^BITS for big m)
            if m > 1:
                x = rng.randrange(m)
                for y in ((m - x) % m, (m - 1 - x) % m, (m + 1 - x) % m, m - 1):
                    out.append("add_mod %d %s %s %s" % (bits, T(bits, x), T(bits, y), T(bits, m)))
                # unreduced operands overflowing 2^BITS
                x = M - 1 - rng.randrange(min(M, 4))
                y = M - 1 - rng.randrange(min(M, 4))
                out.append("add_mod %d %s %s %s" % (bits, T(bits, x), T(bits, y), T(bits, m)))
                out.append("mul_mod %d %s %s %s" % (bits, T(bits, x), T(bits, y), T(bits, m)))
                out.append("mul_mod %d %s %s %s" % (bits, T(bits, m - 1), T(bits, m - 1), T(bits, m)))
        ms = moduli(rng, bits)
        fixed = [0, 1 % M, 2 % M, M - 1, M >> 1, ((M >> 1) + 1) % M]
        k = (6 if bits <= 600 else 2) * scale
        for m in fixed + rng.sample(ms, min(k, len(ms))):
            a, b = rand_op(rng, bits, m), rand_op(rng, bits, m)
            out.append("reduce_mod %d %s %s" % (bits, T(bits, a), T(bits, m)))
            out.append("add_mod %d %s %s %s" % (bits, T(bits, a), T(bits, b), T(bits, m)))
            out.append("mul_mod %d %s %s %s" % (bits, T(bits, a), T(bits, b), T(bits, m)))
        # pow_mod
        for _ in range((2 if bits <= 600 else 1) * scale):
            m = rand_mod(rng, bits)
            a = rand_op(rng, bits, m)
            for e in exps(rng, bits):
                out.append("pow_mod %d %s %s %s" % (bits, T(bits, a), T(bits, e), T(bits, m)))
        for m in (0, 1 % M, 2 % M, M - 1):
            out.append("pow_mod %d %s %s %s" % (bits, T(bits, C.rand_value(rng, bits)),
                                                 T(bits, rng.choice(exps(rng, bits))), T(bits, m)))
        # inv_mod
        for (a, m) in inv_cases(rng, bits, max(2, r // 2)):
            out.append("inv_mod %d %s %s" % (bits, T(bits, a), T(bits, m)))
    out = [l for l in out if keep(l)]
    rng.shuffle(out)      # spread the expensive widths over the coqc shards
    return out


def nontrivial(line):
    p = line.split()
    if p[1] == "0":
        return False
    m = C.from_limbs([int(x, 16) for x in p[-1][2:].split(",") if x])
    return m > 1


def known_class(finding, line):
    return False
