"""C19 — uint! literals: case generator, metadata and the *custom runner*.

The macro is a compile-time program transformer, so a case is a Rust program.  `RUNNER = "custom"`:
`./check` must obtain the implementation's answers from `run_cases(lines, profile)` instead of
`cargo_build(BIN)` + `run_harness(BIN, profile, lines)` (one call per profile with all lines; the
result is memoised per (profile, lines) inside the process).  Everything else of `check` is
unchanged (the results use the standard token syntax, `CE` = compile error).

run_cases writes the probe crate _build/probe_c19/ (path dependency on the ruint checkout named in
harness/Cargo.toml, features std), one program per source line:
  literal: fn mI(){ out(I, probe(&ENTRY!(<literal>), "<digits>")) }  and the same without the macro
           (fn pI, the "plain twin");
  fwd:     macro_rules! fmI { ($e:expr) => { ENTRY!($e) } }  fn mI(){ out(I, probe(&fmI!(<literal>), ..)) }
           (the literal reaches the proc macro inside a None-delimited group; plain twin: `=> { $e }`);
  tree:    const TI: &str = ENTRY!{ stringify!( <tokens> ) };   a None-delimited group of the tree (item
           `0,3`) is produced by forwarding its contents as an `$eK:expr` argument of a per-case
           macro_rules! fwI { ($e0:expr, ..) => { ENTRY!{ stringify!( .. $e0 .. ) } } } (contents must
           parse as one expression and must not contain another None group);
compiles it with --message-format=json, attributes every error to its source line (following macro
expansion backtraces), blanks the failing lines and recompiles until the crate builds, runs it, and
classifies:
  literal  macro'd program fails:  same diagnostics as the plain twin -> `Z:0` (passed through
                                   unchanged: rustc says exactly what it says without the macro),
                                   otherwise `CE`;
           compiles, value is Uint/Bits<BITS,LIMBS>: `Z:kind Z:BITS Z:LIMBS L:as_limbs()`; the
                                   probe also parses the same digits at run time
                                   (Uint::<BITS,LIMBS>::from_str) and a *differing* run-time value
                                   is appended as a 5th token (`L:..` or `N`), which no
                                   specification accepts;
           compiles but evaluating the expression panics (e.g. from_limbs rejects the limbs): `P`;
           compiles, other type:   `Z:0` when the plain twin compiles and prints the same
                                   value and type, else `E:7`.
  tree     fails -> `CE`; else the stringify! output is tokenised: `Z:a/b/c` open ( [ {, `Z:14`
           close, `Y:text` token, `Z:1e|1f Z:BITS Z:LIMBS L:limbs` for
           `::Uint|Bits::<BITS, LIMBS>::from_limbs([..])`, `E:1` for `compile_error!{".."}`.
"""
import hashlib
import json
import os
import re
import shutil
import subprocess

from . import common as C

PID = "C19"
BIN = "c19"
RUNNER = "custom"
RUNMOD = "RunC19"
LEVEL = "proof"
RULE = ("programs = one literal inside uint! (3 entry points: ruint::uint!, ruint_macro::uint!, "
        "uint_with_path!), the same literal forwarded through a macro_rules `$e:expr` fragment (None-delimited "
        "group, call fwd), or a token tree of depth <= 4 inside ENTRY!{stringify!(..)} (17% of the trees contain "
        "None-delimited groups: lit, lit op lit, (lit), -lit, [lit, lit], {lit}, foo(lit)); literals: bases "
        "2/8/10/16 x digit strings of 1..~1250 digits with underscores x U/B suffix widths 0..4096 "
        "(0,1,7,8,63,64,65,256,4096 always), values 2^bits-1, 2^bits, 2^bits+1, invalid digits per base "
        "(digit = base, a-f/A-F in decimal, g-z, non-ASCII), hexadecimal ..B<digits> with and without "
        "`_`, ordinary suffixed literals, strings/chars containing U8; a case is non-trivial when the "
        "literal carries a U/B suffix (or the tree contains one); distinct = distinct case lines")
TRUSTED = ["Coq 8.16.1 kernel + vm_compute", "hand-written Gallina model coq/Model/Macro.v",
           "probe-crate generator, diagnostic attribution and stringify! tokeniser in vlib/p_c19.py",
           "rustc lexer / proc_macro::Literal::to_string / stringify! pretty printer",
           "run-time comparison value Uint::from_str (property C09)"]
ASSUMPTIONS = ["64-bit host usize; recognised suffix width + 63 does not overflow usize",
               "text = UTF-8 bytes; error messages not modelled (Err = compile error)",
               "literals that rustc's own lexer rejects (0b12, 0x_U8, 1e_U8 ..) are observed but not modelled; "
               "the generator only emits them where the verdict does not depend on the lexer"]
EXPLANATION = ("Theorem C19_holds: for every well-formed program (any literal text, any token tree) "
               "spec call (run call) = true: the macro expands exactly the literals with a U/B suffix to the "
               "canonical limbs of their positional value at the suffix width, rejects invalid digits and "
               "values >= 2^bits, and leaves every other token untouched at any depth; the correspondence "
               "run compiles generated probe crates against the working tree and evaluates model and spec "
               "on the observed expansions inside coqc")

SUSPECT = []

PROBE = os.path.join(C.BUILD, "probe_c19")
ENTRY_SRC = ["::ruint::uint!", "::ruint::__private::ruint_macro::uint!",
             "::ruint::__private::ruint_macro::uint_with_path!"]

PRELUDE = r'''#![allow(warnings)]
use ruint::{Uint, Bits};
use core::str::FromStr;
trait Probe { fn probe(&self, digits: &str) -> String; }
fn hexl(l: &[u64]) -> String { l.iter().map(|x| format!("{:x}", x)).collect::<Vec<_>>().join(",") }
fn rt<const B: usize, const L: usize>(d: &str) -> String { match std::panic::catch_unwind(|| Uint::<B, L>::from_str(d)) { Ok(Ok(v)) => format!("L:{}", hexl(v.as_limbs())), _ => "N".into() } }
impl<const B: usize, const L: usize> Probe for Uint<B, L> { fn probe(&self, d: &str) -> String { format!("U Z:0 Z:{:x} Z:{:x} L:{} {}", B, L, hexl(self.as_limbs()), rt::<B, L>(d)) } }
impl<const B: usize, const L: usize> Probe for Bits<B, L> { fn probe(&self, d: &str) -> String { format!("U Z:1 Z:{:x} Z:{:x} L:{} {}", B, L, hexl(self.as_limbs()), rt::<B, L>(d)) } }
macro_rules! prim { ($($t:ty),*) => { $(impl Probe for $t { fn probe(&self, _d: &str) -> String { format!("P {:?}:{}", self, stringify!($t)) } })* } }
prim!(i8, i16, i32, i64, i128, isize, u8, u16, u32, u64, u128, usize, f32, f64, char, bool, &str);
impl<const N: usize> Probe for &[u8; N] { fn probe(&self, _d: &str) -> String { format!("P {:?}:bytes{}", self, N) } }
fn probe<T: Probe>(t: &T, d: &str) -> String { t.probe(d) }
fn guard<F: FnOnce() -> String + std::panic::UnwindSafe>(f: F) -> String { std::panic::catch_unwind(f).unwrap_or_else(|_| "PANIC".into()) }
fn out(tag: &str, s: String) { println!("{} {}", tag, s); }
'''


# ------------------------------------------------------------------ case lines
def tokY(bs):
    return "Y:" + "".join("%02x" % b for b in bs)


def lit_line(text, entry=0, bits=None):
    if isinstance(text, str):
        text = text.encode()
    if bits is None:
        bits = label_bits(text)
    return "literal %d Z:%x %s" % (bits, entry, tokY(text))


def fwd_line(text, entry=0):
    return "fwd" + lit_line(text, entry)[len("literal"):]


def label_bits(text):
    """the label only: the suffix width (or 0)"""
    m = re.search(rb"[UB](\d+)$", text)
    return min(int(m.group(1)), 1 << 20) if m else 0


def tree_line(items, entry=0):
    """items: list of ('(',) ('[',) ('{',) ('N',) = None-delimited, (')',) close, ('L', text) ('O', text)"""
    enc, bits = [], 0
    for it in items:
        if it[0] in "([{N":
            enc.append("0,%x" % "([{N".index(it[0]))
        elif it[0] == ")":
            enc.append("1")
        else:
            t = it[1].encode() if isinstance(it[1], str) else it[1]
            enc.append(",".join(["2" if it[0] == "L" else "3"] + ["%x" % b for b in t]))
            if it[0] == "L":
                bits = max(bits, label_bits(t))
    return "tree %d Z:%x LL:%s" % (bits, entry, "".join(e + ";" for e in enc))


def parse_case(line):
    p = line.split()
    entry = int(p[2][2:], 16)
    if p[0] in ("literal", "fwd"):
        return (p[0], entry, bytes.fromhex(p[3][2:]))
    items = []
    for part in p[3][3:].split(";")[:-1]:
        xs = [int(x, 16) for x in part.split(",")]
        items.append(xs)
    return ("tree", entry, items)


# ------------------------------------------------------------------ probe crate
def ruint_path():
    txt = open(os.path.join(C.HARNESS, "Cargo.toml")).read()
    m = re.search(r'ruint\s*=\s*\{[^}]*path\s*=\s*"([^"]+)"', txt)
    return m.group(1) if m else C.REPO


def rust_str(bs):
    out = []
    for ch in bs.decode("utf-8", errors="replace"):
        if 32 <= ord(ch) < 127 and ch not in '"\\':
            out.append(ch)
        else:
            out.append("\\u{%x}" % ord(ch))
    return '"' + "".join(out) + '"'


def digits_of(text):
    """the literal's text before its last U/B (the digits handed to the run-time parser)"""
    i = max(text.rfind(b"U"), text.rfind(b"B"))
    return text[:i] if i >= 0 else b""


CLOSE = {0: ")", 1: "]", 2: "}"}
OPEN = {0: "(", 1: "[", 2: "{"}


def items_src(items, args=None):
    """source text of an item list; the contents of a None-delimited group are moved to `args` (macro_rules
    arguments) and replaced by $eK.  Without `args` None groups are not supported."""
    out, stack, cur = [], [], None
    for it in items:
        tgt = out if cur is None else cur
        if it[0] == 0 and len(it) == 2:
            if it[1] == 3:
                if args is None or cur is not None:
                    raise ValueError("unsupported None-delimited group")
                cur = []
            else:
                tgt.append(OPEN[it[1]])
            stack.append(it[1])
        elif it == [1]:
            d = stack.pop()
            if d == 3:
                args.append(" ".join(cur))
                out.append("$e%d" % (len(args) - 1))
                cur = None
            else:
                tgt.append(CLOSE[d])
        else:
            tgt.append(bytes(it[1:]).decode("utf-8"))
    return " ".join(out)


def has_none(items):
    return any(it == [0, 3] for it in items)


def split_first_group(items):
    """(path group items incl. delimiters, rest) when items start with a group"""
    if not items or not (items[0][0] == 0 and len(items[0]) == 2):
        return None
    depth = 0
    for i, it in enumerate(items):
        if it[0] == 0 and len(it) == 2:
            depth += 1
        elif it == [1]:
            depth -= 1
            if depth == 0:
                return items[:i + 1], items[i + 1:]
    return None


def build_source(cases):
    """returns (source lines, {line_no: (case index, role)}) ; roles m, p, t, call"""
    src = PRELUDE.rstrip("\n").split("\n")
    where = {}
    calls = []

    def add(line, idx, role):
        src.append(line)
        where[len(src)] = (idx, role)

    for i, (kind, entry, payload) in enumerate(cases):
        if kind in ("literal", "fwd"):
            try:
                lit = payload.decode("utf-8")
            except UnicodeDecodeError:
                continue
            if "\n" in lit or "\r" in lit:
                continue
            d = rust_str(digits_of(payload))
            pre = "[ruint] " if entry == 2 else ""
            if kind == "literal":
                add("fn m%d() { out(\"m%d\", guard(|| probe(&%s(%s%s), %s))); }" % (i, i, ENTRY_SRC[entry], pre, lit, d), i, "m")
                add("fn p%d() { out(\"p%d\", guard(|| probe(&(%s), %s))); }" % (i, i, lit, d), i, "p")
            else:
                add("macro_rules! fm%d { ($e:expr) => { %s(%s$e) } } fn m%d() { out(\"m%d\", guard(|| probe(&fm%d!(%s), %s))); }"
                    % (i, ENTRY_SRC[entry], pre, i, i, i, lit, d), i, "m")
                add("macro_rules! fp%d { ($e:expr) => { $e } } fn p%d() { out(\"p%d\", guard(|| probe(&fp%d!(%s), %s))); }"
                    % (i, i, i, i, lit, d), i, "p")
            calls.append(("m%d();" % i, i, "cm"))
            calls.append(("p%d();" % i, i, "cp"))
        else:
            items = payload
            sp = split_first_group(items) if entry == 2 else None
            args = [] if has_none(items) else None
            try:
                if sp:
                    body = "%s stringify!( %s )" % (items_src(sp[0], args), items_src(sp[1], args))
                else:
                    body = "stringify!( %s )" % items_src(items, args)
            except (ValueError, IndexError, KeyError):
                continue
            if args is None:
                add("const T%d: &str = %s{ %s };" % (i, ENTRY_SRC[entry], body), i, "t")
            else:
                add("macro_rules! fw%d { (%s) => { %s{ %s } } } const T%d: &str = fw%d!(%s);"
                    % (i, ", ".join("$e%d:expr" % k for k in range(len(args))), ENTRY_SRC[entry], body, i, i,
                       ", ".join(args)), i, "t")
            calls.append(("out(\"t%d\", T%d.replace('\\n', \" \"));" % (i, i), i, "ct"))
    src.append("fn main() {")
    src.append("std::panic::set_hook(Box::new(|_| {}));")
    for ln, i, role in calls:
        add(ln, i, role)
    src.append("}")
    return src, where


def span_lines(span, acc):
    if span is None:
        return
    if span.get("file_name", "").endswith("src/main.rs"):
        acc.add(span["line_start"])
    exp = span.get("expansion")
    if exp:
        span_lines(exp.get("span"), acc)


def cargo(profile, run=False):
    env = dict(os.environ)
    env.update({"RUSTFLAGS": "--cfg recmo_uint_verif -Awarnings", "CARGO_TARGET_DIR": C.TARGET,
                "CARGO_NET_OFFLINE": "true"})
    cmd = ["cargo", "build", "--offline", "--message-format=json"]
    if profile == "release":
        cmd.append("--release")
    p = subprocess.run(cmd, cwd=PROBE, env=env, stdout=subprocess.PIPE, stderr=subprocess.PIPE, text=True)
    return p.returncode, p.stdout, p.stderr


def write_crate():
    os.makedirs(os.path.join(PROBE, "src"), exist_ok=True)
    with open(os.path.join(PROBE, "Cargo.toml"), "w") as f:
        f.write('[package]\nname = "probe_c19"\nversion = "0.0.0"\nedition = "2021"\npublish = false\n\n'
                '[workspace]\n\n[dependencies]\n'
                'ruint = { path = "%s", default-features = false, features = ["std"] }\n\n'
                '[profile.dev]\nopt-level = 0\ndebug = false\nincremental = false\n\n'
                '[profile.release]\nopt-level = 1\ndebug = false\ndebug-assertions = false\n'
                'overflow-checks = false\ncodegen-units = 16\nincremental = false\n' % ruint_path())
    lock = os.path.join(C.HARNESS, "Cargo.lock")
    if not os.path.exists(lock):
        lock = os.path.join(C.REPO, "Cargo.lock")
    shutil.copy(lock, os.path.join(PROBE, "Cargo.lock"))


# ------------------------------------------------------------------ stringify! output
TOK_RE = re.compile(r"""\s*(?:
    (?P<dc>\$crate) |
    (?P<str>b?"(?:[^"\\]|\\.)*"[A-Za-z0-9_]*) |
    (?P<chr>b?'(?:[^'\\]|\\.)'[A-Za-z0-9_]*) |
    (?P<num>[0-9][0-9A-Za-z_]*(?:\.[0-9][0-9A-Za-z_]*)?) |
    (?P<id>[A-Za-z_][A-Za-z0-9_]*) |
    (?P<p>\S))""", re.X | re.S)


def tokenise(s):
    toks, pos = [], 0
    s = s.rstrip()
    while pos < len(s):
        m = TOK_RE.match(s, pos)
        if not m:
            raise ValueError("cannot tokenise at %d: %r" % (pos, s[pos:pos + 20]))
        toks.append(m.group(m.lastgroup))
        pos = m.end()
    return toks


def tree_result(s):
    t = tokenise(s)
    out, i = [], 0
    while i < len(t):
        # :: Uint :: < N , M > :: from_limbs ( [ .. ] )
        if (t[i:i + 2] == [":", ":"] and i + 14 < len(t) and t[i + 2] in ("Uint", "Bits")
                and t[i + 3:i + 6] == [":", ":", "<"] and t[i + 7] == "," and t[i + 9] == ">"
                and t[i + 10:i + 15] == [":", ":", "from_limbs", "(", "["]):
            j = i + 15
            limbs = []
            while t[j] != "]":
                if t[j] != ",":
                    m = re.fullmatch(r"0x([0-9a-f]{16})_u64", t[j])
                    if not m:
                        raise ValueError("bad limb token " + t[j])
                    limbs.append(int(m.group(1), 16))
                j += 1
            if t[j + 1] != ")":
                raise ValueError("bad from_limbs call")
            out.append("Z:%x Z:%x Z:%x %s" % (30 + (t[i + 2] == "Bits"), int(t[i + 6]), int(t[i + 8]), C.tokL(limbs)))
            i = j + 2
            continue
        if t[i] == "compile_error" and t[i + 1:i + 3] == ["!", "{"] and i + 4 < len(t) and t[i + 4] == "}":
            out.append("E:1")
            i += 5
            continue
        if t[i] in "([{" and len(t[i]) == 1:
            out.append("Z:%x" % (10 + "([{".index(t[i])))
        elif t[i] in ")]}" and len(t[i]) == 1:
            out.append("Z:14")
        else:
            out.append(tokY(t[i].encode()))
        i += 1
    return " ".join(out)


# ------------------------------------------------------------------ the runner
_MEMO = {}


def run_cases(lines, profile="debug"):
    key = (profile, hashlib.sha1("\n".join(lines).encode()).hexdigest())
    if key not in _MEMO:
        _MEMO[key] = _run_cases(lines, profile)
    return list(_MEMO[key])


def _run_cases(lines, profile):
    cases = [parse_case(ln) for ln in lines]
    write_crate()
    src, where = build_source(cases)
    errs = {}            # (case, role) -> set of messages
    main_rs = os.path.join(PROBE, "src", "main.rs")
    log = ""
    for _round in range(8):
        with open(main_rs, "w") as f:
            f.write("\n".join(src) + "\n")
        rc, out, err = cargo(profile)
        log = err
        if rc == 0:
            break
        failing = set()
        for ln in out.splitlines():
            if not ln.startswith("{"):
                continue
            m = json.loads(ln)
            if m.get("reason") != "compiler-message":
                continue
            d = m["message"]
            if d.get("level") != "error":
                continue
            acc = set()
            for sp in d.get("spans", []):
                span_lines(sp, acc)
            for l in acc:
                if l in where:
                    idx, role = where[l]
                    errs.setdefault((idx, role), set()).add(d["message"])
                    failing.add(l)
        if not failing:
            return ["X probe crate does not build: " + log[-300:].replace("\n", " ")] * len(lines)
        # blank failing programs and their calls
        dead = {where[l] for l in failing}
        for l, (idx, role) in where.items():
            if (idx, role) in dead or (idx, role[1:]) in dead and role.startswith("c"):
                src[l - 1] = ""
    else:
        return ["X probe crate did not converge"] * len(lines)
    exe = os.path.join(C.TARGET, profile, "probe_c19")
    p = subprocess.run([exe], stdout=subprocess.PIPE, stderr=subprocess.PIPE, text=True)
    if p.returncode != 0:
        return ["X probe crate crashed: " + p.stderr[-300:].replace("\n", " ")] * len(lines)
    outp = {}
    for ln in p.stdout.splitlines():
        tag, _, rest = ln.partition(" ")
        outp[tag] = rest
    res = []
    for i, (kind, entry, payload) in enumerate(cases):
        if kind in ("literal", "fwd"):
            em, ep = errs.get((i, "m"), set()), errs.get((i, "p"), set())
            if em:
                res.append("Z:0" if em == ep else "CE")
                continue
            o = outp.get("m%d" % i)
            if o is None:
                res.append("X no output for case")
                continue
            if o == "PANIC":
                res.append("P")        # the expansion compiled but panicked when evaluated
            elif o.startswith("U "):
                f = o.split()
                r = " ".join(f[1:5])
                if f[5] != f[4]:
                    r += " " + f[5]
                res.append(r)
            else:
                res.append("Z:0" if (not ep and outp.get("p%d" % i) == o) else "E:7")
        else:
            if errs.get((i, "t")):
                res.append("CE")
                continue
            o = outp.get("t%d" % i)
            if o is None:
                res.append("X no output for case")
                continue
            try:
                res.append(tree_result(o))
            except (ValueError, IndexError) as e:
                res.append("X " + str(e))
    return res


# ------------------------------------------------------------------ generator
BASES = {2: "0b", 8: "0o", 10: "", 16: "0x"}
ALPHA = "0123456789abcdef"
FIXED_W = [0, 1, 7, 8, 63, 64, 65, 256, 4096]


def to_base(v, base, rng=None, upper=False):
    if v == 0:
        return "0"
    ds = []
    while v:
        ds.append(ALPHA[v % base])
        v //= base
    s = "".join(reversed(ds))
    if base == 16 and rng is not None:
        s = "".join(c.upper() if rng.random() < 0.4 else c for c in s)
    return s


def sprinkle(s, rng, p=0.15):
    """insert underscores (never in front: the token must start with a digit)"""
    out = []
    for k, c in enumerate(s):
        out.append(c)
        if rng.random() < p:
            out.append("_" * rng.choice([1, 1, 2]))
    return "".join(out)


def mk_lit(rng, base, v, kind, bits, us=None, pad=0):
    """text of a literal with value v; us: None random, True/False force `_` before the suffix"""
    ds = "0" * pad + to_base(v, base, rng)
    if rng.random() < 0.5:
        ds = sprinkle(ds, rng)
    pre = BASES[base]
    if pre and rng.random() < 0.1:
        ds = "_" + ds
    if us is None:
        us = rng.random() < 0.6
    if kind == "B" and base == 16:
        us = True if us is None else us
    body = pre + ds.rstrip("_") + ("_" if us else "")
    # hex digits followed directly by B<bits> are not a suffix; binary/octal/decimal are fine
    return body + kind + str(bits)


def lexer_ok(text):
    """conservative prediction that rustc's lexer accepts the token (only used to keep literals whose
    verdict would otherwise depend on the lexer out of the corpus)"""
    m = re.match(r"^(0b|0o|0x)?([0-9A-Za-z_]*)$", text)
    if not m:
        return False
    pre, body = m.group(1) or "", m.group(2)
    if pre == "0x":
        d = re.match(r"^[0-9a-fA-F_]*", body).group(0)
        return bool(re.search(r"[0-9a-fA-F]", d))
    if pre:
        d = re.match(r"^[0-9_]*", body).group(0)
        if not re.search(r"[0-9]", d):
            return False
        if re.search(r"[2-9]" if pre == "0b" else r"[89]", d):
            return False
        return not re.match(r"^[eE]", body[len(d):])
    d = re.match(r"^[0-9_]*", body).group(0)
    return bool(d) and d[0].isdigit() and not re.match(r"^[eE]", body[len(d):])


def rand_width(rng, tier="quick"):
    r = rng.random()
    if r < 0.40:
        return rng.choice(FIXED_W[:-1])
    if r < 0.55:
        return rng.choice([2, 3, 9, 31, 32, 60, 66, 127, 128, 129, 192, 255, 257, 320, 512])
    if r < 0.85:
        return rng.randrange(0, 130)
    if r < 0.95 or tier == "quick" and r < 0.985:
        return rng.randrange(0, 700)
    return rng.choice([1024, 2048, 4096, rng.randrange(0, 4097)])


def corpus():
    out = []
    L = lit_line
    # F8 (fixed): a digit equal to the base
    for t in ("12a_U8", "12A_U8", "1a_U256", "0o8_U8", "0o18_B7", "0b2_U8", "0b12_U8", "0b102_B64",
              "9a9_U64", "0o7a_U8", "0b1a_U8"):
        out.append(L(t))
    for e in (0, 1, 2):
        for t in ("0_U0", "1_U0", "0_B0", "1_U1", "2_U1", "255_U8", "256_U8", "0xff_U8", "0x100_U8",
                  "0xABB8", "0xAB_B8", "0xABB_8", "0xBB8", "0xB_B8", "0x_B1", "0xB1", "0x1B", "12B8", "0b1B1",
                  "0o7B3", "0o7_B2", "12U", "12B", "1U08", "1U_8", "1u8", "1usize", "0xffu8", "12", "1.5",
                  "1.5_U8", "2.0f64", "\"aU8\"", "\"aB8\"", "'U'", "'B'", "b'U'", "b\"B8\"", "\"x\"U8",
                  "\"é\"U8", "\"éU8\"", "1U8U9", "1B8U8", "1U8B8", "0U64", "0B64",
                  "18446744073709551615_U64", "18446744073709551616_U64", "18446744073709551616_U65",
                  "36893488147419103232_U65", "0xFFFFFFFFFFFFFFFFU64", "1_U100000",
                  "1_U18446744073709551616", "1_U99999999999999999999",
                  "0x12345678_9abcdef0_0fedcba9_87654321_U128", "1__2__3___U7", "1__2__9___U7",
                  "0o777_U9", "0o1000_U9", "0b11111111_U8", "0b100000000_U8", "1g_U8", "1z_U8", "1G_U64",
                  "0xgU8", "1e5U8", "0xe5U8", "0xeU8", "1f32", "1_f32", "0xf32"):
            out.append(L(t, e))
    T = tree_line
    lit = lambda s: ("L", s)
    oth = lambda s: ("O", s)
    for e in (0, 1, 2):
        out.append(T([("(",), ("[",), lit("1_U8"), ("{",), oth("foo"), oth(":"), oth(":"), oth("bar"), oth("+"),
                      lit("0xABB8"), (")",), (")",), lit("1u8"), lit("\"xU8\""), lit("'U'"), oth("-"), lit("5"),
                      lit("1.5"), lit("0xAB_B8"), (")",)], e))
        out.append(T([("[",), oth("foo"), oth(":"), oth(":"), ("(",), lit("2_U8"), (")",), oth("bar"), (")",),
                      lit("1_U65"), oth("+"), oth("="), lit("256_U8"), lit("12a_U8")], e))
        out.append(T([lit("1_U8")], e))
        out.append(T([], e))
        out.append(T([oth("x"), ("(",), (")",)], e))
        out.append(T([("{",), ("{",), ("{",), ("{",), lit("0xffff_B16"), lit("\"é\"U8"), (")",), (")",), (")",), (")",)], e))
        out.append(T([("(",), oth("ruint"), (")",), ("(",), ("[",), ("{",), ("(",), lit("7_U3"), lit("8_U3"),
                      (")",), (")",), (")",), (")",)], e))
    # None-delimited groups: literals forwarded through macro_rules `$e:expr` fragments
    for e in (0, 1, 2):
        for t in ("0x1_B8", "12_U8", "255_U8", "256_U8", "12a_U8", "0xffB8", "12U", "1u8", "\"aU8\"", "0_U0",
                  "18446744073709551616_U65", "0x2A_B256"):
            out.append(fwd_line(t, e))
        out.append(T([("N",), lit("0x1_B8"), (")",)], e))
        out.append(T([oth("show"), ("(",), ("N",), lit("12_U8"), oth("+"), lit("1_U8"), (")",), (")",)], e))
        out.append(T([("{",), ("[",), ("(",), oth("show"), ("(",), ("N",), lit("0x2A_B256"), (")",), (")",), oth(","),
                      (")",), (")",), (")",)], e))
        out.append(T([("(",), oth("ruint"), (")",), ("N",), ("(",), lit("7_U3"), (")",), (")",), ("N",), oth("-"),
                      lit("8_U3"), (")",), ("N",), ("[",), lit("1u8"), oth(","), lit("0xABB8"), oth(","), lit("12U"),
                      (")",), (")",)], e))
    return [x for x in out if x not in SUSPECT]


OTHERS = ["foo", "x1", "u8", "U8", "B8", "_U8", "let", "fn", "self", "r", "b", "+", "-", "*", "/", "=", "<", ">",
          "!", "&", "|", "^", "%", ",", ";", ":", "#", "?", "@", "~"]
PASS_LITS = ["1", "12", "1u8", "255u8", "0xABB8", "0xBB8", "0xB1", "0x1B", "0xffB16", "1.5", "2.0f32", "1e5",
             "\"aU8\"", "\"B8\"", "'U'", "b'B'", "b\"U8\"", "0b1011", "0o17", "1_000", "0xdead_beef", "7usize",
             "12U", "3B", "1U_8", "1i128"]


def rand_literal(rng, big=False, tier="quick"):
    """one suffixed literal with an interesting verdict"""
    base = rng.choice([2, 8, 10, 16])
    kind = rng.choice("UUB")
    bits = rand_width(rng, tier)
    if bits > 1500 and tier == "quick":
        base = rng.choice([10, 16])
    m = 1 << bits
    r = rng.random()
    if r < 0.12:
        v = m - 1
    elif r < 0.24:
        v = m
    elif r < 0.30:
        v = m + 1
    elif r < 0.36:
        v = rng.choice([0, 1])
    elif r < 0.42 and bits >= 64:
        v = 1 << (64 * rng.randrange(1, C.nlimbs(bits) + 1))   # limb boundary, may equal 2^bits
    elif r < 0.5:
        v = (m - 1) >> rng.randrange(0, 3)
    elif r < 0.9:
        v = C.rand_value(rng, bits)
    else:
        v = C.rand_value(rng, bits + rng.randrange(1, 70))
    pad = rng.choice([0, 0, 0, 1, 5]) if not big else rng.randrange(0, 40)
    t = mk_lit(rng, base, v, kind, bits, pad=pad)
    if rng.random() < 0.18:
        # corrupt one digit: digit = base, base+1, hex letters in decimal, g..z
        pre = len(BASES[base])
        end = max(t.rfind("U"), t.rfind("B"))
        pos = [k for k in range(pre, end) if t[k] != "_"]
        if pos:
            k = rng.choice(pos[1:] or pos) if base == 10 else rng.choice(pos)
            bad = rng.choice([ALPHA[base] if base < 16 else "g", ALPHA[min(base + 1, 15)] if base < 15 else "G",
                              "aAfF"[rng.randrange(4)] if base < 16 else "z", "9" if base < 10 else "h", "g", "Z"])
            t2 = t[:k] + bad + t[k + 1:]
            if lexer_ok(t2):
                t = t2
    return t


def none_group(rng, tier):
    """a None-delimited group: one expression forwarded as a macro_rules fragment"""
    def L():
        if rng.random() < 0.7:
            t = rand_literal(rng, tier=tier)
            return ("L", t if len(t) < 120 else "1_U8")
        return ("L", rng.choice(PASS_LITS))
    form = rng.randrange(7)
    if form == 0:
        body = [L()]
    elif form == 1:
        body = [L(), ("O", rng.choice("+-*/")), L()]
    elif form == 2:
        body = [("(",), L(), (")",)]
    elif form == 3:
        body = [("O", "-"), L()]
    elif form == 4:
        body = [("[",), L(), ("O", ","), L(), (")",)]
    elif form == 5:
        body = [("{",), L(), (")",)]
    else:
        body = [("O", "foo"), ("(",), L(), (")",)]
    return [("N",)] + body + [(")",)]


def gen(rng, tier):
    n_lit = 420 if tier == "quick" else 1500
    n_tree = 90 if tier == "quick" else 250
    out = []
    texts = []
    # systematic: every base x every fixed width x {MAX, MAX+1, MAX+2} x both kinds
    for base in (2, 8, 10, 16):
        for bits in FIXED_W:
            for dv in (-1, 0, 1):
                v = (1 << bits) + dv
                if v < 0 or (bits == 4096 and tier == "quick" and (dv == 1 or base in (2, 8))):
                    continue
                kind = "U" if (bits + dv + base) % 3 else "B"
                texts.append(mk_lit(rng, base, v, kind, bits, us=True if (kind == "B" and base == 16) else None))
    # long digit strings (several hundred digits and more)
    long_ = [(2, 600), (8, 1500), (10, 1024), (10, 3000), (16, 1025), (2, 4096)]
    if tier != "quick":
        long_ += [(2, 1024), (2, 2048), (8, 2048), (8, 4096), (10, 4096), (16, 4096), (10, 2047)]
    for base, bits in long_:
        for dv in (-1, 0):
            texts.append(mk_lit(rng, base, (1 << bits) + dv, "U", bits))
        if tier != "quick":
            texts.append(mk_lit(rng, base, C.rand_value(rng, bits), rng.choice("UB"), bits, us=True,
                                pad=rng.randrange(30)))
    for _ in range(n_lit):
        texts.append(rand_literal(rng, tier=tier))
    # hexadecimal B rule, with and without `_`
    for _ in range(30 if tier == "quick" else 150):
        bits = rng.choice([1, 4, 8, 16, 64, 256])
        v = C.rand_value(rng, rng.choice([bits, bits + 3]))
        texts.append(mk_lit(rng, 16, v, "B", bits, us=rng.random() < 0.5))
        texts.append("0x" + to_base(v, 16, rng) + rng.choice(["B", "b", "_B", "BB", "B_", "U", "_U"]) + str(bits))
    for t in PASS_LITS:
        texts.append(t)
    for t in texts:
        if not lexer_ok(t) and not re.match(r'^(b?["\']|[0-9.]+(f32|f64|e5)?$)', t):
            continue
        out.append(lit_line(t, rng.choice([0, 0, 0, 1, 2])))
    rng.shuffle(out)         # spread the long literals over the coqc shards
    # token trees
    for _ in range(40 if tier == "quick" else 200):
        t = rand_literal(rng, tier=tier) if rng.random() < 0.8 else rng.choice(PASS_LITS)
        if len(t) < 400:
            out.append(fwd_line(t, rng.choice([0, 0, 1, 2])))
    for _ in range(n_tree):
        items, depth = [], 0
        n = rng.randrange(1, 14)
        with_none = rng.random() < 0.17
        for _k in range(n):
            r = rng.random()
            if with_none and (rng.random() < 0.3 or _k == n - 1 and not any(i == ("N",) for i in items)):
                items += none_group(rng, tier)
            elif r < 0.22 and depth < 4:
                items.append((rng.choice("([{"),))
                depth += 1
            elif r < 0.36 and depth > 0:
                items.append((")",))
                depth -= 1
            elif r < 0.6:
                t = rand_literal(rng, tier=tier)
                items.append(("L", t if len(t) < 120 else "1_U8"))
            elif r < 0.75:
                items.append(("L", rng.choice(PASS_LITS)))
            else:
                items.append(("O", rng.choice(OTHERS)))
        items += [(")",)] * depth
        entry = rng.choice([0, 0, 1, 2])
        if entry == 2 and rng.random() < 0.8:
            items = [(rng.choice("([{"),), ("O", "ruint"), (")",)] + items
        out.append(tree_line(items, entry))
    return [x for x in out if x not in SUSPECT]


def nontrivial(line):
    kind, entry, payload = parse_case(line)
    if kind in ("literal", "fwd"):
        return re.search(rb"[UB]\d+$", payload) is not None
    return any(it[0] == 2 and re.search(rb"[UB]\d+$", bytes(it[1:])) for it in payload)


def known_class(finding, line):
    return False


if __name__ == "__main__":
    # fallback driver used by harness/src/bin/c19.rs: case lines on stdin, result lines on stdout;
    # invocations are serialised (check runs shards concurrently) and use the shared probe crate
    import fcntl
    import sys
    _lines = [ln for ln in sys.stdin.read().split("\n") if ln.strip()]
    os.makedirs(C.BUILD, exist_ok=True)
    with open(os.path.join(C.BUILD, "probe_c19.lock"), "w") as _lk:
        fcntl.flock(_lk, fcntl.LOCK_EX)
        _res = run_cases(_lines, sys.argv[1] if len(sys.argv) > 1 else "debug")
    sys.stdout.write("".join(r + "\n" for r in _res))
