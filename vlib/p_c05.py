"""C05 — shifts and rotations: case generator and metadata."""
from . import common as C

PID = "C05"
BIN = "c05"
RUNMOD = "RunC05"
LEVEL = "proof"
RULE = ("amounts: every s in [0, BITS+64*LIMBS+1] for BITS<=66, else 0,1,2, every multiple of 64 +-1, "
        "BITS+-1, 64*LIMBS+-1, BITS+64*LIMBS(+1), 2^32, 2^63, 2^64-1 and random; values: single bits at "
        "both ends of every limb, the bit that just survives / is just lost for the amount, MAX, 0, 1 and "
        "the boundary-biased limb alphabet; at every harness width x every method, every primitive amount "
        "type x operator shape, and Uint-typed amounts (small, ~BITS, >= 2^64); a case is non-trivial when "
        "BITS>0, the value is not 0 and the amount is not 0; distinct = distinct case lines")
TRUSTED = ["Coq 8.16.1 kernel + vm_compute", "hand-written Gallina model coq/Model/{Base,Word,Shift}.v",
           "correspondence harness harness/src/bin/c05.rs + vlib (python) translation of tokens",
           "rustc/LLVM u64 semantics"]
ASSUMPTIONS = ["u64 <<, >>, | modelled as Z arithmetic mod 2^64 (shift amounts < 64)",
               "usize is 64 bits: `rhs as usize` is the identity on non-negative amounts of every "
               "primitive amount type; negative amounts are outside the property",
               "BITS + 63 does not overflow usize"]
EXPLANATION = ("Theorem C05_holds: forall wf call, spec call (run call) = true, proved for all BITS>=0, all "
               "canonical values and all amounts 0 <= s < 2^64 (any magnitude for Uint amounts) by "
               "induction over the limb lists (carry-chain invariants of the two shift loops); the "
               "correspondence run evaluates model and spec on the implementation's actual outputs "
               "inside coqc")

METHODS = ["overflowing_shl", "checked_shl", "saturating_shl", "wrapping_shl", "overflowing_shr",
           "checked_shr", "wrapping_shr", "arithmetic_shr", "rotate_left", "rotate_right"]
AMT_MAX = [2**64 - 1, 2**8 - 1, 2**16 - 1, 2**32 - 1, 2**64 - 1, 2**63 - 1, 2**7 - 1, 2**15 - 1,
           2**31 - 1, 2**63 - 1]
HUGE = [1 << 32, 1 << 63, (1 << 64) - 1]
SUSPECT = []


def amounts(bits, full):
    n = C.nlimbs(bits)
    top = bits + 64 * n + 1
    if full:
        s = set(range(0, top + 1))
    else:
        s = {0, 1, 2, top, top - 1}
        for k in range(0, n + 2):
            s.update((64 * k - 1, 64 * k, 64 * k + 1))
        s.update((bits - 1, bits, bits + 1))
    return sorted(x for x in s if 0 <= x <= top)


def special_values(bits):
    if bits == 0:
        return [0]
    m = 1 << bits
    vs = {0, 1, m - 1, 1 << (bits - 1), (m - 1) ^ (1 << (bits - 1)), m >> 1 | 1}
    for i in range(C.nlimbs(bits)):
        for p in (64 * i, 64 * i + 63):
            if p < bits:
                vs.add(1 << p)
                vs.add((m - 1) ^ (1 << p))
    return sorted(vs)


def value_for(rng, bits, s, left):
    """Value whose interesting bit sits at the edge decided by the amount s."""
    if bits == 0:
        return 0
    m = 1 << bits
    r = rng.random()
    if r < 0.35:
        # left: bit bits-s-1 just survives, bits-s is just lost; right: bit s survives, s-1 is lost
        p = (bits - s - rng.choice([0, 1])) if left else (s - rng.choice([0, 1]))
        if 0 <= p < bits:
            v = 1 << p
            if rng.random() < 0.3:
                v |= C.rand_value(rng, bits) & ((1 << p) - 1 if left else ~((1 << (p + 1)) - 1)) & (m - 1)
            return v
    if r < 0.6:
        return rng.choice(special_values(bits))
    return C.rand_value(rng, bits)


def m_line(f, bits, v, s):
    return "%s %d %s Z:%x" % (f, bits, C.tokU(bits, v), s)


def is_left(f):
    return f.endswith("shl") or f == "rotate_left"


def uint_amounts(rng, bits):
    """Uint-typed amounts: small, around BITS, above 2^64 (when representable)."""
    if bits == 0:
        return [0]
    m = 1 << bits
    out = {0, 1 % m, (bits - 1) % m, bits % m, (bits + 1) % m, m - 1, rng.randrange(m)}
    out.add(rng.randrange(min(m, bits + 70)))
    if bits > 64:
        out.update(((1 << 64), (1 << 64) + 1, (1 << (bits - 1)), (1 << 64) + bits - 1,
                    (rng.randrange(1, 1 << (bits - 64)) << 64) | rng.randrange(min(bits, 64))))
        out = {x % m for x in out}
    return sorted(out)


def corpus():
    out = []
    # regression inputs of the repaired defects F2 / F3
    out += ["overflowing_shl 65 L:0,1 Z:1", "overflowing_shl 128 L:0,1 Z:40",
            "overflowing_shr 128 L:1,0 Z:40", "checked_shl 65 L:0,1 Z:1", "checked_shl 128 L:0,1 Z:40",
            "checked_shr 128 L:1,0 Z:40", "saturating_shl 65 L:0,1 Z:1", "saturating_shl 128 L:0,1 Z:40",
            "shl_uint 128 L:1,0 L:0,1", "shr_uint 128 L:1,0 L:0,1", "shr_uint 128 L:0,1 L:0,1",
            "op_shl_uint 128 Z:1 L:1,0 L:0,1", "op_shl_uint 128 Z:2 L:1,0 L:0,1",
            "op_shl_uint 128 Z:3 L:1,0 L:0,1", "op_shr_uint 128 Z:3 L:0,1 L:0,1",
            "op_shl_uint 192 Z:0 L:1,0,0 L:1,0,1", "op_shr_uint 192 Z:1 L:1,2,3 L:1,0,1"]
    # boundary corpus: special values x the amounts around every edge, flags in both directions
    for bits in (0, 1, 2, 63, 64, 65, 127, 128, 129, 192, 256):
        ams = [s for s in amounts(bits, False)] + HUGE
        vs = special_values(bits)
        for i, s in enumerate(ams):
            for j, f in enumerate(("overflowing_shl", "overflowing_shr", "arithmetic_shr", "rotate_left",
                                   "rotate_right", "saturating_shl")):
                out.append(m_line(f, bits, vs[(i + j) % len(vs)], s))
            out.append(m_line("overflowing_shl", bits, (1 << bits) - 1 if bits else 0, s))
            out.append(m_line("overflowing_shr", bits, (1 << bits) - 1 if bits else 0, s))
    return [ln for ln in out if ln not in SUSPECT]


def gen(rng, tier):
    quick = tier == "quick"
    widths = C.WIDTHS_QUICK if quick else C.WIDTHS_QUICK + C.WIDTHS_MORE
    out = []
    for bits in widths:
        full = bits <= 66 if quick else bits <= 257
        ams = amounts(bits, full)
        reps = 1 if quick else 3
        for _ in range(reps):
            # 1. every amount: the two flag-carrying primitives + one other method
            for s in ams:
                out.append(m_line("overflowing_shl", bits, value_for(rng, bits, s, True), s))
                out.append(m_line("overflowing_shr", bits, value_for(rng, bits, s, False), s))
                f = rng.choice(METHODS)
                out.append(m_line(f, bits, value_for(rng, bits, s, is_left(f)), s))
            # 2. every method: boundary amounts, huge amounts, random amounts
            bnd = amounts(bits, False)
            for f in METHODS:
                pool = [rng.choice(bnd) for _ in range(4)] + [rng.choice(HUGE)] + \
                       [rng.randrange(0, bits + 64 * C.nlimbs(bits) + 2), rng.getrandbits(64)]
                for s in pool:
                    out.append(m_line(f, bits, value_for(rng, bits, s, is_left(f)), s))
                out.append(m_line(f, bits, (1 << bits) - 1 if bits else 0, rng.choice(bnd)))
            # 3. operator overloads: every amount type x shape, direction alternating
            for ty in range(10):
                for shape in range(4):
                    for f in (("op_shl", "op_shr") if not quick else
                              (("op_shl", "op_shr")[(ty + shape + bits) % 2],)):
                        r = rng.random()
                        if r < 0.6:
                            s = rng.choice(bnd)
                        elif r < 0.8:
                            s = rng.choice(HUGE + [AMT_MAX[ty], AMT_MAX[ty] - 1, 127, 128, 255, 256])
                        else:
                            s = rng.getrandbits(rng.choice([6, 8, 12, 32, 64]))
                        s = min(s, AMT_MAX[ty])
                        out.append("%s %d Z:%x Z:%x %s Z:%x" % (
                            f, bits, ty, shape, C.tokU(bits, value_for(rng, bits, s, f == "op_shl")), s))
            # 4. Uint-typed amounts
            ks = uint_amounts(rng, bits)
            for i, k in enumerate(ks):
                for f in ("shl_uint", "shr_uint"):
                    v = value_for(rng, bits, min(k, 2 * bits + 64), f == "shl_uint")
                    out.append("%s %d %s %s" % (f, bits, C.tokU(bits, v), C.tokU(bits, k)))
                for f in ("op_shl_uint", "op_shr_uint"):
                    v = value_for(rng, bits, min(k, 2 * bits + 64), f == "op_shl_uint")
                    out.append("%s %d Z:%x %s %s" % (f, bits, i % 4, C.tokU(bits, v), C.tokU(bits, k)))
            for shape in range(4):
                for f in ("op_shl_uint", "op_shr_uint"):
                    k = rng.choice(ks)
                    v = value_for(rng, bits, min(k, 2 * bits + 64), f == "op_shl_uint")
                    out.append("%s %d Z:%x %s %s" % (f, bits, shape, C.tokU(bits, v), C.tokU(bits, k)))
    return [ln for ln in out if ln not in SUSPECT]


def nontrivial(line):
    p = line.split()
    if p[1] == "0":
        return False
    ls = [t for t in p[2:] if t.startswith("L:")]
    zs = [t for t in p[2:] if t.startswith("Z:")]
    val_nz = any(x not in ("", "0") for x in ls[0][2:].split(","))
    if len(ls) == 2:
        amt_nz = any(x not in ("", "0") for x in ls[1][2:].split(","))
    else:
        amt_nz = zs[-1] != "Z:0"
    return val_nz and amt_nz


def known_class(finding, line):
    return False
