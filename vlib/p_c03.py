"""C03 — Euclidean division through the Uint API, div_ceil, (checked_)next_multiple_of:
case generator and metadata."""
import random

from . import common as C
from . import c14_ref as R          # branch-tracing transliteration: picks inputs, never an oracle
from . import p_c14 as K            # rand_divisor / rand_numerator operand families

PID = "C03"
BIN = "c03"
RUNMOD = "RunC03"
LEVEL = "proof"
RULE = ("(n, d) pairs at every harness width x every division entry point (div_rem, wrapping_div/rem, "
        "checked_div/rem, div_ceil, 6 shapes each of / /= % %=, next_multiple_of, checked_next_multiple_of): "
        "divisors of every limb length 1..LIMBS with normalised / unnormalised / 1 / MAX top limb, d = 0, 1, 2, "
        "2^k, MAX; n = q*d + r from extreme q, r (0, 1, d-1, d-2), numerators whose leading limbs equal the "
        "divisor's, n < d, n = d, n = d*B^k - e; next-multiple cases straddling 2^BITS; directed cases found "
        "with a branch-tracing transliteration of the kernels (Knuth add-back, forced digit, q = 0, 2x1/3x2 "
        "corrections, reciprocal_2 adjustments); non-trivial = BITS > 0, d != 0 and some operand not 0/1; "
        "distinct = distinct case lines")
TRUSTED = ["Coq 8.16.1 kernel + vm_compute",
           "hand-written Gallina model coq/Model/{Base,Word,Limbs,Add,Div*,UDiv}.v",
           "correspondence harness harness/src/bin/c03.rs + vlib (python) translation of tokens",
           "rustc/LLVM u64/u128 semantics"]
ASSUMPTIONS = ["DivKernelOK (limb kernel algorithms::div computes floor quotient and remainder; property C14, "
               "proof in progress) and DivKernelZero are explicit hypotheses of C03_all_partial",
               "u64/u128 arithmetic modelled as Z arithmetic with explicit wraps",
               "BITS + 63 does not overflow usize"]
EXPLANATION = ("Theorem C03_unconditional: forall wf call, spec call (run call) = true (C03_all_partial with its kernel hypotheses DivKernelOK/DivKernelZero discharged by PfDiv.div_kernel_spec of C14): "
         "= true, for all BITS >= 0 and all canonical operands; checked_mul (addmul kernel), checked_add, "
         "wrapping_add, is_zero, ONE are proved unconditionally; the correspondence run evaluates model and spec "
         "on the implementation's actual outputs inside coqc")

SUSPECT = []

FN2 = ["div_rem", "wrapping_div", "wrapping_rem", "checked_div", "checked_rem", "div_ceil",
       "checked_next_multiple_of", "next_multiple_of"]
OPS = ["op_div", "op_rem"]
TAGS = ["d21_dec", "d21_inc", "d32_dec", "d32_inc", "nxm_q0", "nxm_addback", "nxm_addback_s0",
        "nxm_ovf", "nxm_ovf_s0", "r2_a1", "r2_a2", "r2_b1", "r2_b2"]
B = 1 << 64


def line(f, bits, n, d, shape=None):
    if shape is None:
        return "%s %d %s %s" % (f, bits, C.tokU(bits, n), C.tokU(bits, d))
    return "%s %d Z:%x %s %s" % (f, bits, shape, C.tokU(bits, n), C.tokU(bits, d))


def trace(bits, n, d):
    tr = set()
    k = C.nlimbs(bits)
    try:
        R.div(C.to_limbs(n, k), C.to_limbs(d, k), tr)
    except (R.Pre, IndexError, AssertionError):
        pass
    return tr


# ------------------------------------------------------------------ operand families
def rand_div(rng, bits):
    """non-zero divisor < 2^bits; every limb length 1..LIMBS, varied top limb"""
    m = 1 << bits
    k = C.nlimbs(bits)
    r = rng.random()
    if r < 0.05:
        return 1
    if r < 0.09:
        return 2 % m or 1
    if r < 0.14:
        return 1 << rng.randrange(bits)
    if r < 0.18:
        return m - 1
    if r < 0.21:
        return (m - 1 - rng.randrange(3)) % m or 1
    ld = rng.randrange(1, k + 1)
    d = C.from_limbs(K.rand_divisor(rng, ld))
    if d >= m:
        # keep the limb length, fit the top limb under the mask
        top = bits - 64 * (k - 1)
        hi = (d >> (64 * (k - 1))) & ((1 << top) - 1)
        if rng.random() < 0.5:
            hi |= 1 << (top - 1)                 # highest representable bit set
        d = (d & ((1 << (64 * (k - 1))) - 1)) | ((hi or 1) << (64 * (k - 1)))
    return d % m or 1


def rand_num(rng, bits, d):
    """numerator < 2^bits aimed at divisor d"""
    m = 1 << bits
    k = C.nlimbs(bits)
    r = rng.random()
    qmax = (m - 1) // d
    if r < 0.30:
        # n = q*d + r from extreme q and r
        q = rng.choice([0, 1, 2, qmax, max(qmax - 1, 0), qmax // 2, (B - 1) % (qmax + 1),
                        B % (qmax + 1), rng.randrange(qmax + 1),
                        C.rand_value(rng, bits) % (qmax + 1)])
        rem = rng.choice([0, 0, 1 % d, d - 1, max(d - 2, 0), rng.randrange(d)])
        n = q * d + rem
        if n >= m:
            n = (q - 1) * d + rem if q > 0 else rem % m
        return n % m
    if r < 0.36:
        return d                                   # n = d
    if r < 0.42:
        return rng.randrange(d)                    # n < d
    if r < 0.46:
        return (d + rng.choice([-1, 1])) % m
    if r < 0.52:
        return C.rand_value(rng, bits)
    dl = C.to_limbs(d, k)
    n = C.from_limbs(K.rand_numerator(rng, k, dl))
    if n >= m:
        # keep the low limbs, cut the top limb to the width (structure of the lower limbs stays)
        n &= m - 1
    return n


def pair(rng, bits):
    if bits == 0:
        return 0, 0
    if rng.random() < 0.06:
        return C.rand_value(rng, bits), 0          # zero divisor
    d = rand_div(rng, bits)
    return rand_num(rng, bits, d), d


def nmo_pair(rng, bits):
    """(n, d) around the overflow boundary of next_multiple_of"""
    if bits == 0:
        return 0, 0
    m = 1 << bits
    r = rng.random()
    if r < 0.08:
        return C.rand_value(rng, bits), 0
    d = rand_div(rng, bits)
    t = (m - 1) // d                               # t*d = largest representable multiple
    if r < 0.30:
        n = t * d - rng.choice([0, 1, d - 1, rng.randrange(d)])   # -> Some(t*d) (or below)
    elif r < 0.55:
        n = t * d + rng.choice([1, 1, (m - 1) - t * d])           # -> None when t*d + 1 < m
    elif r < 0.65:
        n = m - 1 - rng.randrange(3)
    elif r < 0.75:
        q = rng.randrange(t + 1)
        n = q * d + rng.choice([0, 1, d - 1])
    else:
        n = rand_num(rng, bits, d)
    return max(0, min(n, m - 1)), d


# ------------------------------------------------------------------ directed cases
_DIRECTED = None


def directed():
    """(bits, n, d) triples reaching each rare kernel branch through the Uint API, found by a
    fixed-seed search; raises if a branch becomes unreachable."""
    global _DIRECTED
    if _DIRECTED is not None:
        return _DIRECTED
    rng = random.Random(0xC03)
    per = 4
    got = {t: [] for t in TAGS}
    widths = [128, 129, 192, 250, 255, 256, 257, 320, 512, 536]
    for it in range(60000):
        bits = widths[it % len(widths)]
        d = rand_div(rng, bits)
        n = rand_num(rng, bits, d)
        for t in trace(bits, n, d):
            if t in got and len(got[t]) < per:
                got[t].append((bits, n, d))
        if all(len(v) >= per for v in got.values()):
            break
    missing = [t for t, v in got.items() if not v]
    if missing:
        raise RuntimeError("directed generation lost branches: %s" % missing)
    _DIRECTED = [x for v in got.values() for x in v]
    return _DIRECTED


def table_cases():
    """Divisors for which a changed reciprocal-table row of the source gives a wrong reciprocal
    (found by p_c14.table_directed, see there), turned into Uint divisions."""
    from . import p_c14
    out = []
    M = (1 << 64) - 1
    for ln in p_c14.table_directed()[:40]:
        p = ln.split()
        if p[0] != "reciprocal":
            continue
        d = int(p[2][2:], 16)
        out.append("div_rem 128 %s %s" % (C.tokL([M, M]), C.tokL([d, 0])))
        out.append("div_rem 192 %s %s" % (C.tokL([1, 2, M]), C.tokL([5, d, 0])))
        out.append("div_rem 256 %s %s" % (C.tokL([1, 2, 3, M]), C.tokL([7, 5, d, 0])))
    return out


def corpus():
    out = []
    # regression of the repaired next_multiple_of (used to end in todo!())
    out.append(line("next_multiple_of", 64, 23, 8))
    out.append(line("checked_next_multiple_of", 64, 23, 8))
    out.append(line("next_multiple_of", 64, 16, 8))
    out.append(line("checked_next_multiple_of", 64, (1 << 64) - 1, 2))
    out.append(line("next_multiple_of", 64, (1 << 64) - 1, 2))
    # doc examples at U0 / U1
    for (bits, n, d) in ((0, 0, 0), (1, 0, 0), (1, 0, 1), (1, 1, 0), (1, 1, 1)):
        for f in FN2:
            out.append(line(f, bits, n, d))
    # boundary grid
    for bits in (0, 1, 2, 63, 64, 65, 127, 128, 129, 192, 256, 320, 512):
        m = 1 << bits
        ds = sorted({0, 1 % m, 2 % m, 3 % m, m - 1, m // 2, (m // 2 + 1) % m, (1 << (bits // 2)) % m,
                     ((1 << 64) - 1) % m, (1 << 64) % m, ((1 << 64) + 1) % m})
        ns = sorted({0, 1 % m, m - 1, (m - 2) % m, m // 2, (m // 2 - 1) % m, ((1 << 64) - 1) % m,
                     (1 << 64) % m})
        for d in ds:
            for n in ns + [d, (d - 1) % m, (d + 1) % m]:
                for f in ("div_rem", "div_ceil", "checked_next_multiple_of", "next_multiple_of"):
                    out.append(line(f, bits, n, d))
                out.append(line("checked_div", bits, n, d))
                out.append(line("op_rem", bits, n, d, (n + d) % 6))
    # the "very special case for reciprocal_3by2" vector and the crate's Knuth vector, via Uint
    d = 170141183460488574554024512018559533057
    out.append(line("div_rem", 128, d + 1, d))
    out.append(line("div_rem", 256,
                    C.from_limbs([0x1656178c14142000, 0x821415dfe9e81612, 0x1616561616161616, 0x96000016820016]),
                    C.from_limbs([0x1415dfe9e8161414, 0x1656161616161682, 0x9600001682001616, 0])))
    # rare branches of the kernels
    for (bits, n, d) in directed():
        out.append(line("div_rem", bits, n, d))
        out.append(line("div_ceil", bits, n, d))
        out.append(line("next_multiple_of", bits, n, d))
        out.append(line("op_div", bits, n, d, n % 6))
    out += table_cases()
    return [x for x in out if x not in SUSPECT]


def gen(rng, tier):
    widths = C.WIDTHS_QUICK if tier == "quick" else C.WIDTHS_QUICK + C.WIDTHS_MORE
    reps = 7 if tier == "quick" else 60
    out = []
    for bits in widths:
        for _ in range(reps):
            for f in FN2:
                n, d = nmo_pair(rng, bits) if (f.endswith("multiple_of") and rng.random() < 0.6) \
                    else pair(rng, bits)
                out.append(line(f, bits, n, d))
        for shape in range(6):
            for f in OPS:
                n, d = pair(rng, bits)
                out.append(line(f, bits, n, d, shape))
        # a divisor of every limb length at this width, through div_rem
        k = C.nlimbs(bits)
        for ld in range(1, min(k, 9) + 1):
            if bits == 0:
                break
            m = 1 << bits
            d = C.from_limbs(K.rand_divisor(rng, ld)) % m or 1
            n = rand_num(rng, bits, d)
            out.append(line("div_rem", bits, n, d))
    return [x for x in out if x not in SUSPECT]


def extra_evidence(lines):
    """Rare-branch reach of the explored cases: counted inside the real crate by the
    cfg(recmo_uint_verif) counters (when the driver provides them) and, independently, by the
    tracing transliteration; plus the histogram of divisor limb lengths."""
    ev = {}
    if hasattr(C, "hook_counters"):
        ev["hook_counters"] = C.hook_counters(BIN, lines)
    cov = {t: 0 for t in TAGS}
    ldhist = {}
    for ln in lines:
        p = ln.split()
        toks = [t for t in p[2:] if t.startswith("L:")]
        vals = [C.from_limbs([int(x, 16) for x in t[2:].split(",") if x]) for t in toks]
        n, d = vals[-2], vals[-1]
        for t in trace(int(p[1]), n, d):
            if t in cov:
                cov[t] += 1
        key = str((d.bit_length() + 63) // 64)
        ldhist[key] = ldhist.get(key, 0) + 1
    ev["traced_branch_reach"] = cov
    ev["divisor_limb_length_histogram"] = ldhist
    return ev


def nontrivial(ln):
    p = ln.split()
    if p[1] == "0":
        return False
    toks = [t for t in p[2:] if t.startswith("L:")]
    dl = toks[-1][2:].split(",")
    if all(x in ("", "0") for x in dl):
        return False
    return any(x not in ("", "0", "1") for t in toks for x in t[2:].split(","))


def known_class(finding, ln):
    return False
