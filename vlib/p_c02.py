"""C02 — multiplication (wrapping/overflowing/checked/saturating/widening, inv_ring, products):
case generator and metadata."""
from . import common as C

PID = "C02"
BIN = "c02"
RUNMOD = "RunC02"
LEVEL = "proof"
RULE = ("operand pairs built from limb patterns (zero low / high / middle limbs, single bits, all-ones, "
        "boundary limb alphabet, uniform) and from factorisations landing just below / at / above 2^BITS "
        "(a = 2^k, b = 2^(BITS-k) + {-1,0,1}, floor/ceil(2^BITS / a)), at every harness width (all five "
        "addmul_n arms: 0,1,2,3,4,5+ limbs) x every multiplication entry point, six operator shapes, both "
        "Product impls; widening_mul over a generated table of 230 (BITS, BITS_RHS) instances plus 10 "
        "instances with a wrong BITS_RES; inv_ring on odd/even/1/3/MAX/random; a case is non-trivial "
        "when BITS>0 and some operand is not 0/1; distinct = distinct case lines")
TRUSTED = ["Coq 8.16.1 kernel + vm_compute",
           "hand-written Gallina model coq/Model/{Base,Word,Limbs,Add,Conv,Mul}.v",
           "correspondence harness harness/src/bin/c02.rs + vlib (python) translation of tokens",
           "rustc/LLVM u64/u128 semantics"]
ASSUMPTIONS = ["u64 Wrapping arithmetic and u128 muladd modelled as Z arithmetic with explicit mod 2^64",
               "BITS + 63 and BITS + BITS_RHS do not overflow usize",
               "a widening_mul instantiation with LIMBS_RES != nlimbs(BITS_RES) does not compile "
               "(model: CompileError); it cannot be linked into the harness, checked by hand"]
EXPLANATION = ("Theorem C02_holds: forall wf call, spec call (run call) = true, proved for all widths and "
               "all canonical operands: unrolled addmul_1..4 by carry algebra, the generic kernel by "
               "PfLimbs.addmul_spec, inv_ring by Hensel lifting from a 5-bit seed with the doubling loop "
               "shown never to run out of fuel; the correspondence run evaluates model and spec on the "
               "implementation's actual outputs inside coqc")

BIN2 = ["overflowing_mul", "checked_mul", "saturating_mul", "wrapping_mul"]
SUSPECT = []

GRID = [0, 1, 7, 63, 64, 65, 128, 129, 192, 256]
RHS_ALL = [0, 1, 64, 65, 129]
HARNESS_WIDTHS = [0, 1, 2, 3, 5, 7, 8, 9, 16, 31, 33, 60, 63, 64, 65, 66, 96, 127, 128, 129, 130,
                  190, 192, 250, 255, 256, 257, 320, 384, 512, 520, 536, 1024, 1030, 2048, 4096]
WIDE_PAIRS = sorted(set([(a, b) for a in HARNESS_WIDTHS for b in RHS_ALL]
                        + [(a, b) for a in GRID for b in GRID]))
WIDE_BAD = [(64, 64, 127), (64, 64, 129), (1, 1, 1), (0, 0, 1), (65, 63, 129), (128, 128, 255),
            (7, 7, 15), (0, 64, 0), (256, 256, 511), (63, 1, 65)]


def limb_pattern(rng, bits):
    """value whose limb structure exercises addmul's trimming: zero low/high/middle limbs"""
    n = C.nlimbs(bits)
    m = 1 << bits
    if n == 0:
        return 0
    limbs = [C.rand_limb(rng) or 1 for _ in range(n)]
    k = rng.randrange(6)
    if k == 0:      # zero low limbs
        z = rng.randrange(0, n + 1)
        for i in range(z):
            limbs[i] = 0
    elif k == 1:    # zero high limbs
        z = rng.randrange(0, n + 1)
        for i in range(n - z, n):
            limbs[i] = 0
    elif k == 2:    # zero on both ends
        lo = rng.randrange(0, n + 1)
        hi = rng.randrange(0, n + 1 - lo)
        for i in range(lo):
            limbs[i] = 0
        for i in range(n - hi, n):
            limbs[i] = 0
    elif k == 3:    # zero middle limbs
        for i in range(1, n - 1):
            if rng.random() < 0.7:
                limbs[i] = 0
    elif k == 4:    # a single non-zero limb
        j = rng.randrange(n)
        limbs = [0] * n
        limbs[j] = C.rand_limb(rng) or 1
    else:           # all-ones limbs with holes
        limbs = [C.B64 - 1 if rng.random() < 0.8 else 0 for _ in range(n)]
    return C.from_limbs(limbs) % m


def sparse_pair(rng, bits):
    """both operands with zero low limbs AND interior zero limbs (the accumulator window of addmul
    runs out at different rows depending on all of them; seeded change c02_E)"""
    n = C.nlimbs(bits)
    m = 1 << bits

    def one():
        z = rng.randrange(0, n)
        limbs = [0] * z + [(0 if rng.random() < 0.4 else (C.rand_limb(rng) or 1)) for _ in range(n - z)]
        if not any(limbs):
            limbs[rng.randrange(n)] = 1
        return C.from_limbs(limbs) % m
    return one(), one()


def operand(rng, bits):
    r = rng.random()
    if r < 0.5:
        return limb_pattern(rng, bits)
    return C.rand_value(rng, bits)


def pair(rng, bits):
    """operand pair; a third of them with a*b within +-small of 2^bits (or of a limb boundary)"""
    m = 1 << bits
    if bits == 0:
        return 0, 0
    r = rng.random()
    if r < 0.15:
        k = rng.randrange(bits + 1)
        a = (1 << k) % m
        b = ((1 << (bits - k)) + rng.choice([-1, 0, 1])) % m
        return (a, b) if rng.random() < 0.5 else (b, a)
    if r < 0.30:
        a = operand(rng, bits) or 1
        q = m // a
        b = (q + rng.choice([-1, 0, 1, 1])) % m
        return (a, b) if rng.random() < 0.5 else (b, a)
    if r < 0.36:
        # product near a lower power of two / limb boundary
        t = rng.randrange(1, bits + 1)
        k = rng.randrange(t + 1)
        a = (1 << k) % m
        b = ((1 << (t - k)) + rng.choice([-1, 0, 1])) % m
        return a, b
    if r < 0.42:
        a = operand(rng, bits)
        return a, a
    if r < 0.47:
        return m - 1, rng.choice([m - 1, 1, 2 % m, 0, operand(rng, bits)])
    return operand(rng, bits), operand(rng, bits)


def wide_line(rng, bl, br):
    a = operand(rng, bl)
    b = operand(rng, br)
    if rng.random() < 0.25:
        a = (1 << bl) - 1
    if rng.random() < 0.25:
        b = (1 << br) - 1
    return "widening_mul %d Z:%x Z:%x Z:%x %s %s" % (bl, br, bl + br, C.nlimbs(bl + br),
                                                      C.tokU(bl, a), C.tokU(br, b))


def wide_bad_line(rng, bl, br, bo):
    return "widening_mul %d Z:%x Z:%x Z:%x %s %s" % (bl, br, bo, C.nlimbs(bo),
                                                      C.tokU(bl, operand(rng, bl)), C.tokU(br, operand(rng, br)))


def inv_arg(rng, bits):
    m = 1 << bits
    if bits == 0:
        return 0
    r = rng.random()
    if r < 0.1:
        return 1
    if r < 0.2:
        return m - 1
    if r < 0.3:
        return 3 % m
    v = operand(rng, bits)
    if r < 0.85:
        v |= 1
    return v % m


def corpus():
    out = []
    for bits in (0, 1, 2, 63, 64, 65, 127, 128, 129, 192, 250, 256, 257, 320, 512):
        m = 1 << bits
        h = bits // 2
        cases = [(0, 0), (m - 1, m - 1), (m - 1, 1 % m), (1 % m, 1 % m), (m - 1, 2 % m),
                 ((1 << h) % m, (1 << (bits - h)) % m),            # exactly 2^bits
                 ((1 << h) % m, ((1 << (bits - h)) - 1) % m),      # just below
                 (((1 << h) + 1) % m, (1 << (bits - h)) % m),      # just above
                 ((m >> 1), 2 % m), ((m >> 1), 1 % m)]
        for (x, y) in cases:
            for f in BIN2:
                out.append("%s %d %s %s" % (f, bits, C.tokU(bits, x), C.tokU(bits, y)))
        for v in (0, 1 % m, 2 % m, 3 % m, m - 1, (m - 1) // 3, (m >> 1) | (1 % m), (m >> 1)):
            out.append("inv_ring %d %s" % (bits, C.tokU(bits, v)))
        for shape in (0, 1):
            out.append("product %d Z:%x LL:" % (bits, shape))     # empty product
            out.append("product %d Z:%x %s" % (bits, shape, C.tokLL([C.to_limbs(m - 1, C.nlimbs(bits))] * 3)))
    # doc examples
    out.append("overflowing_mul 1 L:1 L:1")
    out.append("overflowing_mul 65 L:0,1 L:0,1")
    out.append("widening_mul 0 Z:0 Z:0 Z:0 L: L:")
    out.append("widening_mul 1 Z:1 Z:2 Z:1 L:1 L:1")
    import random
    r = random.Random(2)
    for (bl, br, bo) in WIDE_BAD:
        out.append(wide_bad_line(r, bl, br, bo))
    for (bl, br) in WIDE_PAIRS:
        out.append("widening_mul %d Z:%x Z:%x Z:%x %s %s" % (
            bl, br, bl + br, C.nlimbs(bl + br), C.tokU(bl, (1 << bl) - 1), C.tokU(br, (1 << br) - 1)))
    return [ln for ln in out if ln not in SUSPECT]


def gen(rng, tier):
    quick = tier == "quick"
    widths = C.WIDTHS_QUICK if quick else C.WIDTHS_QUICK + C.WIDTHS_MORE
    reps = 8 if quick else 80
    out = []
    for bits in widths:
        big = bits >= 1024          # the model's 64-limb kernels cost seconds per case in the VM
        for _ in range(reps // 4 if big else reps):
            for f in BIN2:
                a, b = pair(rng, bits)
                out.append("%s %d %s %s" % (f, bits, C.tokU(bits, a), C.tokU(bits, b)))
        if C.nlimbs(bits) >= 3:
            for _ in range(3 if big else (10 if quick else 60)):
                a, b = sparse_pair(rng, bits)
                for f in rng.sample(BIN2, 2):
                    out.append("%s %d %s %s" % (f, bits, C.tokU(bits, a), C.tokU(bits, b)))
        for shape in range(6):
            for _ in range(1 if quick else 4):
                a, b = pair(rng, bits)
                out.append("op_mul %d Z:%x %s %s" % (bits, shape, C.tokU(bits, a), C.tokU(bits, b)))
        for _ in range(reps // 16 if big else reps):
            out.append("inv_ring %d %s" % (bits, C.tokU(bits, inv_arg(rng, bits))))
        for shape in range(2):
            for n in (0, 1, 2, 3, 6):
                xs = [C.to_limbs(operand(rng, bits) | (1 if rng.random() < 0.6 else 0) if bits else 0,
                                 C.nlimbs(bits)) for _ in range(n)]
                xs = [C.to_limbs(C.from_limbs(x) % (1 << bits), C.nlimbs(bits)) for x in xs]
                out.append("product %d Z:%x %s" % (bits, shape, C.tokLL(xs)))
    for (bl, br) in WIDE_PAIRS:
        for _ in range(2 if quick else 12):
            out.append(wide_line(rng, bl, br))
    for (bl, br, bo) in WIDE_BAD:
        out.append(wide_bad_line(rng, bl, br, bo))
    return [ln for ln in out if ln not in SUSPECT]


def nontrivial(line):
    p = line.split()
    if p[1] == "0" and p[0] != "widening_mul":
        return False
    return any(t.startswith("L") and any(x not in ("", "0", "1") for x in t.split(":")[1].replace(";", ",").split(","))
               for t in p[2:])


def known_class(finding, line):
    return False
