"""C13 — pow family, log family, root: case generator, estimate preparation and metadata.

Case lines
  pow|wrapping_pow|overflowing_pow|checked_pow|saturating_pow  bits L:a L:e
  log|checked_log      bits L:v L:base LL:est
  log2|checked_log2    bits L:v
  log10|checked_log10  bits L:v LL:est
  root                 bits L:v Z:degree LL:guess
The generator emits the lines without the trailing LL: token; `prepare` asks the release
harness bin for the floating-point estimate the crate computes internally (`est_log`,
`est_log10`, `est_root`: public approx_log2 / approx_pow2 / TryFrom<f64>, same expressions as
the source) and appends it: `LL:` = no estimate (the source panics there), `LL:a,b;` = the Uint.
"""
import os
import subprocess
import sys
from concurrent.futures import ThreadPoolExecutor

from . import common as C

PID = "C13"
BIN = "c13"
RUNMOD = "RunC13"
LEVEL = "proof"
RULE = ("widths 0,1,2,3 included; pow family: (base, exp) with base^exp just below / at / above 2^BITS "
        "(bases 0,1,2,3,10,2^k,2^k+-1,MAX,random; exp = floor(BITS/log2 base)+{-1,0,1,2}, 0, 1, random up to "
        "full width; for BITS>=65 multi-limb exponents hi*2^64k+lo with lo in {0,1,2,3,small,random} against bases 2, 2^k, odd, even); log family: value = base^k+{-1,0,1} for bases 2,3,10,small,large,MAX, value 0,1,MAX, "
        "base 0,1,2,>value,=value; root: degree 0..BITS+2 and 2^64-1, value = r^degree+{-1,0,1}, 0,1,MAX,"
        "random; every observed floating-point estimate is checked against log_est_ok/root_guess_ok (wfb); "
        "non-trivial = BITS>0 and some operand not 0/1; distinct = distinct case lines")
TRUSTED = ["Coq 8.16.1 kernel + vm_compute",
           "hand-written Gallina model coq/Model/{Base,Word,Limbs,Add,Bits,Shift,Conv,Div*,Pow,Log,Root}.v",
           "correspondence harness harness/src/bin/c13.rs (incl. its est_* reproduction of the f64 estimate) "
           "+ vlib (python) translation of tokens",
           "rustc/LLVM u64/u128 semantics"]
ASSUMPTIONS = ["libm log2/exp2 and the f64 -> Uint conversion are NOT modelled: the estimate used by log/root is an "
               "input of the model, reproduced by the harness with the crate's public functions; the theorems hold "
               "for every estimate satisfying log_est_ok / root_guess_ok, which is checked on every observed estimate",
               "Uint division (algorithms::div) is used by root through hypothesis DivKernelOK (property C14)",
               "BITS < 2^64 (usize)"]
EXPLANATION = ("Theorem C13_holds: forall wf call, spec call (run call) = true: pow family for all BITS, bases, "
               "exponents (square-and-multiply invariant); log family and root for every estimate satisfying the "
               "explicit predicates; the correspondence run evaluates model and spec on the implementation's actual "
               "outputs inside coqc and evaluates the predicates on the actual estimates")

SUSPECT = []

POW_FNS = ["pow", "wrapping_pow", "overflowing_pow", "checked_pow", "saturating_pow"]
NEEDS_EST = {"log": 4, "checked_log": 4, "log10": 3, "checked_log10": 3, "root": 4}  # tokens before est
EST_FN = {"log": "est_log", "checked_log": "est_log", "log10": "est_log10", "checked_log10": "est_log10",
          "root": "est_root"}


# ---------------------------------------------------------------- integer helpers (python side,
# used only to aim the generator and to report margins; never an oracle)
def ilog(n, b):
    k, p = 0, b
    while p <= n:
        p *= b
        k += 1
    return k


def iroot(n, d):
    if n < 2:
        return n
    lo, hi = 1, 1 << (n.bit_length() // d + 1)
    while lo < hi:
        mid = (lo + hi + 1) // 2
        if mid ** d <= n:
            lo = mid
        else:
            hi = mid - 1
    return lo


def U(bits, v):
    return C.tokU(bits, v % (1 << bits) if bits else 0)


def small_base(rng, bits):
    m = 1 << bits
    r = rng.random()
    if r < 0.25:
        b = rng.choice([2, 3, 10])
    elif r < 0.45:
        b = rng.randrange(2, 40)
    elif r < 0.6:
        b = (1 << rng.randrange(1, max(2, bits // 2 + 1))) + rng.choice([-1, 0, 1])
    elif r < 0.75:
        b = rng.getrandbits(rng.randrange(1, max(2, min(bits, 70))))
    elif r < 0.85:
        b = rng.getrandbits(max(1, bits // rng.randrange(2, 6)))
    else:
        b = C.rand_value(rng, bits)
    return b % m if m > 1 else 0


def exp_cap(bits):
    # keep the evaluation in coqc fast (model and spec are O(BITS^2 * len(exp))): exponent length
    return bits if bits <= 66 else 64


# ---------------------------------------------------------------- pow
def pow_cases(rng, bits, reps):
    m = 1 << bits
    out = []

    def emit(a, e, fns=None):
        for f in (fns or [rng.choice(POW_FNS)]):
            out.append("%s %d %s %s" % (f, bits, U(bits, a), U(bits, e)))

    # fixed corners on every entry point
    for (a, e) in ((0, 0), (0, 1), (1, 0), (m - 1, 0), (m - 1, 1), (m - 1, 2),
                   (2, bits), (2, bits - 1 if bits else 0), (2, bits + 1)):
        emit(a, e, POW_FNS)
    big = m - 1 if bits <= 130 else (m - 1) >> (bits - 64)
    for (a, e) in ((1, big), (0, big), (m - 1, big), (3, 0)):
        emit(a, e, [rng.choice(POW_FNS)] if bits > 66 else POW_FNS)
    for _ in range(reps):
        a = small_base(rng, bits)
        if a >= 2:
            # e0 = largest e with a^e < 2^bits
            e0 = ilog(m - 1, a) if bits else 0
            for d in (-1, 0, 1, 2):
                emit(a, max(0, e0 + d))
            emit(a, max(0, e0 + rng.choice([0, 1])), ["overflowing_pow", "checked_pow", "saturating_pow"])
        # random exponent, random length
        k = rng.randrange(0, exp_cap(bits) + 1)
        emit(a, rng.getrandbits(k) if k else 0)
        emit(C.rand_value(rng, bits), rng.getrandbits(min(k, 12)) if k else 0)
        # powers of two as a base: overflow exactly at e*k = bits
        if bits >= 2:
            kk = rng.randrange(1, bits)
            e0 = bits // kk
            for d in (-1, 0, 1):
                emit(1 << kk, max(0, e0 + d))
        # big exponent with base 0, 1, MAX, even/odd random: wraps
        big = C.rand_value(rng, bits) if bits <= 66 else rng.getrandbits(64)
        emit(rng.choice([0, 1 % m if m > 1 else 0, m - 1, 2, C.rand_value(rng, bits)]), big,
             [rng.choice(POW_FNS), rng.choice(POW_FNS)])
    # multi-limb exponents with structured limbs (high limb(s) set, low limb 0/1/small/random) against
    # power-of-two, odd and even bases: an exponent narrowed to a machine word, a skipped zero limb or a
    # shift-based shortcut for 2^k bases shows only here (seeded change c13_E)
    if bits >= 65 and (bits <= 512 or rng.random() < 0.3):
        for _ in range(max(3, reps // 2)):
            nl = rng.choice([2, 2, 3]) if bits > 128 else 2
            lo = rng.choice([0, 1, 2, 3, rng.randrange(0, 70), rng.getrandbits(64)])
            hi = rng.choice([1, 1, 2, rng.getrandbits(rng.randrange(1, 64)) | 1])
            e = ((hi << (64 * (nl - 1))) | lo) % m
            if e < (1 << 64):
                e = (1 << 64) | lo
            kk = rng.randrange(1, min(bits, 64))
            r = C.rand_value(rng, bits)
            for a in (2, 1 << kk, rng.choice([3, (1 << kk) + 1, m - 1, r | 1, r & ~1])):
                emit(a, e, [rng.choice(["pow", "wrapping_pow"]), rng.choice(POW_FNS)])
    # one full-width exponent per width (the loop runs BITS rounds)
    if bits <= 130 or rng.random() < 0.15:
        emit(C.rand_value(rng, bits) | 1, C.rand_value(rng, bits) | (m >> 1), [rng.choice(POW_FNS)])
    return out


# ---------------------------------------------------------------- log
def log_cases(rng, bits, reps):
    m = 1 << bits
    out = []

    def emit2(v, b):
        for f in ("log", "checked_log"):
            out.append("%s %d %s %s" % (f, bits, U(bits, v), U(bits, b)))

    def emit1(v):
        for f in ("log2", "checked_log2", "log10", "checked_log10"):
            out.append("%s %d %s" % (f, bits, U(bits, v)))

    for v in (0, 1, 2, 3, 9, 10, 11, m - 1, m - 2, m // 2, m // 2 - 1):
        if 0 <= v < max(m, 1):
            emit1(v)
            for b in rng.sample((0, 1, 2, 3, 10, m - 1, v, v + 1, v - 1), 4):
                if 0 <= b < max(m, 1):
                    emit2(v, b)
    for _ in range(reps):
        b = small_base(rng, bits)
        if b >= 2 and bits:
            kmax = ilog(m - 1, b)
            k = rng.randrange(0, kmax + 1)
            for k in {k, kmax, rng.randrange(0, kmax + 1)}:
                for d in (-1, 0, 1):
                    v = b ** k + d
                    if 0 <= v < m:
                        emit2(v, b)
        emit2(C.rand_value(rng, bits), b)
        emit2(C.rand_value(rng, bits), C.rand_value(rng, bits))
        # powers of ten / two and neighbours
        if bits:
            k10 = rng.randrange(0, ilog(m - 1, 10) + 1) if m > 10 else 0
            k2 = rng.randrange(0, bits)
            for v in (10 ** k10 - 1, 10 ** k10, 10 ** k10 + 1, (1 << k2) - 1, 1 << k2, (1 << k2) + 1,
                      C.rand_value(rng, bits)):
                if 0 <= v < m:
                    emit1(v)
    return out


# ---------------------------------------------------------------- root
def root_cases(rng, bits, reps):
    m = 1 << bits
    out = []

    def emit(v, d):
        out.append("root %d %s Z:%x" % (bits, U(bits, v), d))

    degs = list(range(0, min(bits + 2, 8) + 1)) + [bits - 1, bits, bits + 1, bits + 2, (1 << 64) - 1]
    for d in degs:
        if d < 0:
            continue
        for v in (0, 1, m - 1, rng.choice([2, m // 2, m - 2])):
            if 0 <= v < max(m, 1):
                emit(v, d)
    for _ in range(reps):
        if bits < 2:
            break
        r = rng.random()
        if r < 0.5:
            d = rng.randrange(2, min(bits + 2, 9) + 1)
        else:
            d = rng.randrange(1, bits + 3)
        # perfect powers and neighbours
        rmax = iroot(m - 1, d) if d else 1
        x = rng.choice([rmax, max(1, rmax - 1), rng.randrange(1, rmax + 1), 1 + rng.getrandbits(rng.randrange(1, 1 + max(1, rmax.bit_length()))) % max(1, rmax)])
        for dd in (-1, 0, 1):
            v = x ** d + dd
            if 0 <= v < m:
                emit(v, d)
        emit(C.rand_value(rng, bits), d)
        emit(rng.getrandbits(bits), rng.randrange(2, min(bits, 6) + 1) if bits > 2 else 2)
        emit(m - 1 - rng.randrange(3), d)
    return out


def corpus():
    out = []
    # F7 regression inputs (must not panic): checked_log at BITS 0/1, checked_log10 at BITS 1..3,
    # checked_log2 at BITS 1
    out += ["checked_log 0 L: L:", "checked_log 1 L:1 L:1", "checked_log 1 L:1 L:0", "checked_log 1 L:0 L:1",
            "checked_log 2 L:3 L:2", "checked_log 2 L:3 L:3", "checked_log 2 L:2 L:3",
            "checked_log10 0 L:", "checked_log2 0 L:", "checked_log2 1 L:1", "checked_log2 1 L:0",
            "log2 1 L:1", "log2 1 L:0", "log10 1 L:1", "log10 0 L:", "log2 0 L:", "log 0 L: L:", "log 1 L:1 L:1"]
    for bits in (1, 2, 3, 4, 5):          # 4 is the first width where the constant 10 fits
        for v in range(1 << bits):
            out.append("checked_log10 %d L:%x" % (bits, v))
            out.append("log10 %d L:%x" % (bits, v))
    for a in range(16):
        for e in range(16):
            out.append("log 4 %s %s" % (U(4, a), U(4, e)))
            out.append("checked_log 4 %s %s" % (U(4, a), U(4, e)))
        for d in range(0, 7):
            out.append("root 4 %s Z:%x" % (U(4, a), d))
        for f in ("log2", "checked_log2"):
            out.append("%s 4 %s" % (f, U(4, a)))
    # exhaustive at widths 1..3 (and 0)
    for bits in (0, 1, 2, 3):
        m = 1 << bits
        vals = range(m) if bits else [0]
        for a in vals:
            for e in vals:
                for f in POW_FNS:
                    out.append("%s %d %s %s" % (f, bits, U(bits, a), U(bits, e)))
                out.append("log %d %s %s" % (bits, U(bits, a), U(bits, e)))
                out.append("checked_log %d %s %s" % (bits, U(bits, a), U(bits, e)))
            for d in range(0, bits + 3):
                out.append("root %d %s Z:%x" % (bits, U(bits, a), d))
            for f in ("log2", "checked_log2", "log10", "checked_log10"):
                out.append("%s %d %s" % (f, bits, U(bits, a)))
    # doc examples of pow.rs / root.rs / log.rs
    out += ["overflowing_pow 64 L:24 L:c", "overflowing_pow 64 L:24 L:d", "checked_pow 64 L:24 L:d",
            "saturating_pow 64 L:24 L:d", "wrapping_pow 64 L:24 L:d", "pow 64 L:24 L:d",
            "root 256 L:d06320b7d0b334e4,f294619db820c5df,03e1f268ab1516d3,215f07147d573ef2 Z:c4"]
    return [ln for ln in out if strip_est(ln) not in SUSPECT]


def gen(rng, tier):
    widths = [4] + (C.WIDTHS_QUICK if tier == "quick" else C.WIDTHS_QUICK + C.WIDTHS_MORE)
    out = []
    for bits in widths:
        if tier == "quick":
            reps = 2 if bits <= 130 else 1
        else:
            reps = 12 if bits <= 600 else 2
        out += pow_cases(rng, bits, reps)
        out += log_cases(rng, bits, reps)
        out += root_cases(rng, bits, reps * 2)
    # spread the expensive wide cases over all coqc shards (the driver shards consecutive lines)
    rng.shuffle(out)
    return [ln for ln in out if strip_est(ln) not in SUSPECT]


def strip_est(line):
    p = line.split()
    if p and p[-1].startswith("LL:"):
        p = p[:-1]
    return " ".join(p)


LAST_MARGINS = {}


def prepare(lines, profile="release"):
    """Append the floating-point estimate (computed by the release harness bin exactly as the source
    computes it) to every log/checked_log/log10/checked_log10/root line that lacks it.  Idempotent."""
    idx, est_lines = [], []
    for i, ln in enumerate(lines):
        p = ln.split()
        n = NEEDS_EST.get(p[0])
        if n is not None and len(p) == n:
            idx.append(i)
            est_lines.append(" ".join([EST_FN[p[0]]] + p[1:]))
    if not idx:
        return lines
    res = C.run_harness(BIN, profile, est_lines)
    out = list(lines)
    hist = {"log": {}, "root": {}}
    for i, r in zip(idx, res):
        tok = r.strip() if (r and r.startswith("LL:")) else "LL:"
        out[i] = lines[i] + " " + tok
        try:
            _margin(lines[i].split(), tok, hist)
        except Exception:       # margins are informative only
            pass
    LAST_MARGINS.update(hist)
    _preflight(out)
    print("C13 estimates (estimate - exact, where the estimate is used): log %s ; root %s" % (
        _fmt(hist["log"]), _fmt(hist["root"])))
    return out


PREFLIGHT_TIMEOUT = int(os.environ.get("C13_PREFLIGHT_TIMEOUT", "120"))   # seconds per shard


def _preflight(lines):
    """C13 demands termination.  The generic runner has no timeout, so a crate whose correction loops
    run ~2^BITS rounds would hang ./check instead of failing it: run every line once in both profiles
    under a generous timeout first; a hang is reported as a VIOLATION with the hanging case line."""
    for profile in ("release", "debug"):
        exe = os.path.join(C.TARGET, profile, BIN)
        k = 16
        chunks = [lines[i::k] for i in range(k)]

        def go(chunk):
            if not chunk:
                return None
            try:
                subprocess.run([exe], input="\n".join(chunk) + "\n", stdout=subprocess.DEVNULL,
                               stderr=subprocess.DEVNULL, text=True, timeout=PREFLIGHT_TIMEOUT)
                return None
            except subprocess.TimeoutExpired:
                for ln in chunk:        # isolate one hanging line
                    try:
                        subprocess.run([exe], input=ln + "\n", stdout=subprocess.DEVNULL,
                                       stderr=subprocess.DEVNULL, text=True, timeout=10)
                    except subprocess.TimeoutExpired:
                        return ln
                return chunk[0] + "   (shard timed out; no single line isolated)"
        with ThreadPoolExecutor(max_workers=k) as ex:
            hung = [h for h in ex.map(go, chunks) if h]
        if hung:
            hung.sort(key=lambda ln: (int(ln.split()[1]), len(ln)))
            rp = C.write_replay(PID, {"property": PID, "kind": "non-termination", "case": hung[0],
                                      "profile": profile, "others": hung[1:20],
                                      "what": "the call did not return within the time limit "
                                              "(the property demands termination)",
                                      "replay_cmd": "./check %s --replay <this file>" % PID})
            C.write_evidence(PID, {"property_id": PID, "level": LEVEL, "violations": 1,
                                   "coverage": {"notes": ["non-termination: " + hung[0]]},
                                   "assumptions": ASSUMPTIONS})
            print("VIOLATION property=%s replay=%s" % (PID, rp))
            sys.stdout.flush()
            os._exit(1)


def _fmt(h):
    return "{" + ", ".join("%s: %d" % (k, h[k]) for k in sorted(h, key=str)) + "}"


def _val(tok):
    s = tok.split(":", 1)[1]
    return C.from_limbs([int(x, 16) for x in s.split(",")]) if s else 0


def _bucket(diff, exact):
    """small differences verbatim, large ones as the number of leading bits that agree"""
    if abs(diff) <= 3:
        return "%+d" % diff if diff else "0"
    good = max(exact, 1).bit_length() - abs(diff).bit_length()
    return "%s|d|: agree>=%d bits" % ("+" if diff > 0 else "-", good // 8 * 8)


def _margin(p, tok, hist):
    bits = int(p[1])
    est = None if tok == "LL:" else _val("L:" + tok[3:-1])
    if p[0] == "root":
        n, d = _val(p[2]), int(p[3][2:], 16)
        if n > 0 and 2 <= d < bits:
            k = "none" if est is None else _bucket(est - iroot(n, d), iroot(n, d))
            hist["root"][k] = hist["root"].get(k, 0) + 1
    else:
        n = _val(p[2])
        b = _val(p[3]) if p[0] in ("log", "checked_log") else (10 if bits >= 4 else 0)
        if b >= 3 and n >= b:
            k = "none" if est is None else _bucket(est - ilog(n, b), ilog(n, b))
            hist["log"][k] = hist["log"].get(k, 0) + 1


def nontrivial(line):
    p = line.split()
    if p[1] == "0":
        return False
    return any(t.startswith("L:") and any(x not in ("", "0", "1") for x in t[2:].split(","))
               for t in p[2:])


def known_class(finding, line):
    return False
