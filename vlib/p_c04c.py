"""C04 part (c) — rejecting constructors, constants, generators: case generator.
FEATURES = generators (rand 0.8 / 0.9, arbitrary, proptest, quickcheck)."""
from . import common as C
from .p_c04 import LEVEL, RULE, TRUSTED, ASSUMPTIONS, EXPLANATION  # `./check c04c` stand-alone

PID = "C04"
BIN = "c04c"
RUNMOD = "RunC04c"
FEATURES = ["generators"]
SUSPECT = []

SLICE_FNS = ["from_limbs_slice", "checked_from_limbs_slice", "wrapping_from_limbs_slice",
             "overflowing_from_limbs_slice", "saturating_from_limbs_slice"]


def top_variants(rng, bits):
    """limb arrays of the right length whose top limb sits around MASK"""
    n = C.nlimbs(bits)
    if n == 0:
        return [[]]
    mk = C.mask(bits)
    tops = {0, 1, mk, (mk + 1) % C.B64, mk - 1 if mk else 0, C.B64 - 1, mk | (1 << 63), (mk << 1) % C.B64,
            C.rand_limb(rng)}
    out = []
    for t in sorted(tops):
        low = [C.rand_limb(rng) for _ in range(n - 1)]
        out.append(low + [t])
    return out


def rand_slice(rng, bits):
    n = C.nlimbs(bits)
    k = rng.choice([0, max(n - 1, 0), n, n, n + 1, n + 2, rng.randrange(0, n + 3)])
    s = [C.rand_limb(rng) for _ in range(k)]
    r = rng.random()
    if k >= n > 0 and r < 0.5:
        s[n - 1] = rng.choice([C.mask(bits), (C.mask(bits) + 1) % C.B64, C.mask(bits) >> 1, 0, C.B64 - 1])
    if k > n and rng.random() < 0.6:
        for i in range(n, k):
            s[i] = 0 if rng.random() < 0.8 else s[i]
    return s


def corpus():
    out = []
    rng = __import__("random").Random(4)
    for bits in (0, 1, 2, 63, 64, 65, 127, 128, 129, 256):
        for k in range(8):
            out.append("constant %d Z:%x" % (bits, k))
        for l in top_variants(rng, bits):
            out.append("from_limbs %d %s" % (bits, C.tokL(l)))
            out.append("bits_from_limbs %d %s" % (bits, C.tokL(l)))
        n = C.nlimbs(bits)
        mk = C.mask(bits)
        for s in ([], [0] * n, [C.B64 - 1] * n, [C.B64 - 1] * (n + 1), [0] * n + [1], ([0] * (n - 1) + [mk]) if n else [],
                  ([0] * (n - 1) + [(mk + 1) % C.B64]) if n else [1]):
            for f in SLICE_FNS:
                out.append("%s %d %s" % (f, bits, C.tokL(s)))
        # all-ones sources: the mask must be applied
        ws = [C.B64 - 1] * (n + 1)
        for sh in (0, 1):
            out.append("rand08 %d Z:%x %s" % (bits, sh, C.tokL(ws)))
        for sh in (0, 1, 2, 3):
            out.append("rand09 %d Z:%x %s %s" % (bits, sh, C.tokU(bits, (1 << bits) - 1), C.tokL(ws)))
        out.append("arbitrary %d %s" % (bits, C.tokY([0xff] * (8 * n + 3))))
        out.append("arbitrary %d %s" % (bits, C.tokY([])))
        for e in pow2_exponents(rng, bits):
            out.append("approx_pow2 %d Z:%x" % (bits, f64bits(e)))
    return [x for x in out if x not in SUSPECT]


def gen(rng, tier):
    widths = C.WIDTHS_QUICK if tier == "quick" else C.WIDTHS_QUICK + C.WIDTHS_MORE
    reps = 3 if tier == "quick" else 20
    out = []
    for bits in widths:
        n = C.nlimbs(bits)
        for k in range(8):
            out.append("constant %d Z:%x" % (bits, k))
        for _ in range(reps):
            for l in top_variants(rng, bits):
                out.append("%s %d %s" % (rng.choice(["from_limbs", "from_limbs", "bits_from_limbs"]), bits, C.tokL(l)))
            for f in SLICE_FNS:
                for _k in range(3):
                    out.append("%s %d %s" % (f, bits, C.tokL(rand_slice(rng, bits))))
            for _k in range(4):
                ws = [C.rand_limb(rng) for _ in range(rng.choice([n, n, n + 1, max(n - 1, 0), 0]))]
                if ws and rng.random() < 0.5:
                    ws[min(n, len(ws)) - 1] = rng.choice([C.B64 - 1, C.mask(bits), (C.mask(bits) + 1) % C.B64])
                out.append("rand08 %d Z:%x %s" % (bits, rng.randrange(2), C.tokL(ws)))
                out.append("rand09 %d Z:%x %s %s" % (bits, rng.randrange(4), C.tokU(bits, C.rand_value(rng, bits)),
                                                      C.tokL(ws)))
            for _k in range(4):
                nb = rng.choice([8 * n, 8 * n, 8 * n + 1, max(8 * n - 1, 0), max(8 * (n - 1), 0) + rng.randrange(9),
                                 rng.randrange(0, 8 * n + 9)])
                bs = [rng.choice([0, 0xff, 0x80, 1, rng.randrange(256)]) for _ in range(nb)]
                out.append("arbitrary %d %s" % (bits, C.tokY(bs)))
            for _k in range(3):
                out.append("proptest %d Z:%x" % (bits, rng.getrandbits(rng.choice([3, 32, 64]))))
                out.append("quickcheck %d Z:%x Z:%x" % (bits, rng.getrandbits(rng.choice([3, 32, 64])),
                                                        rng.choice([1, 10, 100, 1000])))
        for e in pow2_exponents(rng, bits):
            out.append("approx_pow2 %d Z:%x" % (bits, f64bits(e)))
        for which in range(6):
            out.append("thread_random %d Z:%x Z:%x" % (bits, which, 20 if tier == "quick" else 200))
    return [x for x in out if x not in SUSPECT]


def f64bits(v):
    import struct
    return struct.unpack(">Q", struct.pack(">d", float(v)))[0]


def pow2_exponents(rng, bits):
    """exponents for approx_pow2 around every decision of the code: negative, the 0.58.. rounding
    threshold, integers and half-integers up to BITS, exactly BITS (the largest exponent that is not
    rejected up front: the result 2^BITS never fits), just below / above BITS, the 63/64 switch
    between the rounding path and the shifting path, non-finite values"""
    out = [-2.0, -1.0, -0.5, 0.0, 0.58, 0.5849625007211562, 0.59, 1.0, 1.6, 10.385, 62.0, 62.99, 63.0, 63.5, 64.0,
           64.5, float(bits), bits - 1.0, bits - 0.5, bits - 1e-9, bits + 0.5, bits + 1.0, bits - 63.0, bits - 64.0,
           float("inf"), float("-inf"), float("nan"), 1e300, 5e-324]
    for _ in range(6):
        out.append(rng.uniform(0, max(bits, 1)))
        out.append(float(rng.randrange(0, bits + 2)))
        out.append(bits - rng.random() * rng.choice([1e-12, 1e-6, 1e-3, 1.0]))
    return out


def prepare(lines):
    """complete the seeded third-party generator cases with the words their source draws
    (observed through the same seeded generator at type [u64; LIMBS] / u64)"""
    idx = [i for i, ln in enumerate(lines)
           if ln.split()[0] in ("proptest", "quickcheck") and not any(t.startswith("L:") for t in ln.split()[2:])]
    # approx_pow2: the observed `(fract.exp2() * 2^63) as u64` (libm) is the model's second input
    idp = [i for i, ln in enumerate(lines) if ln.split()[0] == "approx_pow2" and len(ln.split()) == 3]
    if not idx and not idp:
        return lines
    q = []
    for i in idx:
        p = lines[i].split()
        q.append(" ".join([p[0] + "_src"] + p[1:]))
    for i in idp:
        p = lines[i].split()
        q.append(" ".join(["approx_pow2_obs"] + p[1:]))
    res = C.run_harness(BIN, "release", q)
    out = list(lines)
    for i, r in zip(idx, res[:len(idx)]):
        if r is None or not r.startswith("L:"):
            r = "L:"           # the case will then fail wf / agreement and be reported
        out[i] = lines[i] + " " + r
    for i, r in zip(idp, res[len(idx):]):
        if r is None or not r.startswith("Z:"):
            r = "Z:0"
        out[i] = lines[i] + " " + r.strip()
    return out


def nontrivial(line):
    p = line.split()
    if p[1] == "0":
        return False
    if p[0] == "constant":
        return p[2] in ("Z:1", "Z:3", "Z:7")
    return True


def known_class(finding, line):
    return False
