"""C08 — byte encodings (src/bytes.rs, utils.rs trim helpers): case generator and metadata."""
from . import common as C

PID = "C08"
BIN = "c08"
RUNMOD = "RunC08"
LEVEL = "proof"
RULE = ("encoders: boundary-biased values (common.rand_value plus values with 0..BYTES zero high bytes) at "
        "every harness width x every encoding entry point, const-generic forms with N = BYTES, BYTES+1, "
        "BYTES-1; copy forms with buffers of length 0..BYTES+8 filled with non-zero sentinels; decoders: byte "
        "strings of every length class 0..BYTES+8 (empty, short, full, too long), all-zero, leading zeros, "
        "value = 2^BITS-1, 2^BITS, 2^BITS+1, excess high bits in the top byte, all 0xff, random; a case is "
        "non-trivial when BITS>0 and some limb/byte argument is non-zero; distinct = distinct case lines")
TRUSTED = ["Coq 8.16.1 kernel + vm_compute",
           "hand-written Gallina model coq/Model/{Base,Word,Bytes}.v (unsafe byte views of the limb array "
           "modelled as the little-endian bytes of the limbs truncated to BYTES; little-endian target)",
           "correspondence harness harness/src/bin/c08.rs + vlib (python) translation of tokens",
           "rustc/LLVM u64/u8 semantics, std slice/Vec semantics (rposition, truncate, rchunks_mut, "
           "copy_from_slice, reverse)"]
ASSUMPTIONS = ["target_endian = little (the cfg(target_endian = \"big\") branches are not modelled)",
               "BITS + 7 does not overflow usize",
               "trim_end_slice/trim_end_vec/last_idx are pub(crate): exercised through the trimmed encoders only"]
EXPLANATION = ("Theorem C08_holds: forall wf call, spec call (run call) = true, for all BITS>=0, all canonical "
               "values, all byte strings and all buffer lengths; spec states the positional base-256 content "
               "(digits via shift/mask, values via sums of b_i*256^i) independently of the model; the "
               "correspondence run evaluates model and spec on the implementation's actual outputs inside coqc")

SUSPECT = []

ENC1 = ["as_le_slice", "as_le_bytes", "as_le_bytes_trimmed", "to_le_bytes_vec", "to_le_bytes_trimmed_vec",
        "to_be_bytes_vec", "to_be_bytes_trimmed_vec"]
COPY = ["copy_le_bytes_to", "checked_copy_le_bytes_to", "copy_be_bytes_to", "checked_copy_be_bytes_to"]
DEC_SLICE = ["try_from_be_slice", "try_from_le_slice", "from_be_slice", "from_le_slice"]
DEC_ARR = ["from_be_bytes", "from_le_bytes"]


def nbytes(bits):
    return (bits + 7) // 8


def wrong_ns(bits):
    by = nbytes(bits)
    return [by + 1, by - 1 if by > 0 else 2]


def le(v, n):
    return [(v >> (8 * i)) & 0xff for i in range(n)]


def enc_value(rng, bits):
    """value with a biased number of zero high bytes"""
    if bits == 0:
        return 0
    r = rng.random()
    if r < 0.35:
        k = rng.randrange(0, nbytes(bits) + 1)          # number of significant bytes
        hi = min(bits, 8 * k)
        if hi == 0:
            return 0
        v = rng.getrandbits(hi)
        if rng.random() < 0.5:
            v |= 1 << (hi - 1)
        return v
    return C.rand_value(rng, bits)


def sentinel_buf(rng, n):
    return [rng.choice([0xa5, 0x5a, 0xff, 0x01, 0xee]) if rng.random() < 0.8 else rng.randrange(256)
            for _ in range(n)]


def dec_line(f, bits, le_bytes_list):
    """le_bytes_list: little-endian byte list; big-endian functions get it reversed"""
    bs = list(le_bytes_list)
    if "_be_" in f:
        bs.reverse()
    return "%s %d %s" % (f, bits, C.tokY(bs))


def boundary_strings(bits):
    """little-endian byte strings around the range and length boundaries of a width"""
    by = nbytes(bits)
    m = 1 << bits
    out = []
    for v in (0, 1, m - 1, m, m + 1, (1 << (8 * by)) - 1, m | (m >> 1), (m - 1) >> 1):
        if 0 <= v < (1 << (8 * by)):
            out.append(le(v, by))
    # all-zero / all-ff / one set byte, every length class
    for n in sorted({0, 1, by - 1, by, by + 1, by + 7, by + 8, max(0, by - 8), 7, 8, 9}):
        if n < 0 or n > by + 8:
            continue
        out.append([0] * n)
        out.append([0xff] * n)
        if n > 0:
            out.append([0] * (n - 1) + [1])       # top byte 1
            out.append([1] + [0] * (n - 1))       # low byte 1
    # leading zeros (high zero bytes) on an in-range value
    for z in (1, 2, 8):
        if by - z >= 1:
            out.append(le((m - 1) & ((1 << (8 * (by - z))) - 1), by))
    # too long but numerically small
    out.append([1] + [0] * by)
    out.append([1] + [0] * (by + 7))
    return out


def rand_string(rng, bits):
    by = nbytes(bits)
    r = rng.random()
    if r < 0.25:
        n = by
    elif r < 0.45:
        n = rng.randrange(0, by + 1)
    elif r < 0.6:
        n = rng.randrange(by, by + 9)
    else:
        n = rng.randrange(0, by + 9)
    r = rng.random()
    if r < 0.35 and n == by and bits > 0:
        v = enc_value(rng, bits)                         # in range
        return le(v, n)
    if r < 0.5 and n == by and bits % 8 != 0:
        v = enc_value(rng, bits) | (1 << rng.randrange(bits, 8 * by))   # excess high bit
        return le(v, n)
    if r < 0.6:
        z = rng.randrange(0, n + 1)
        return [rng.randrange(256) for _ in range(n - z)] + [0] * z      # high zeros
    if r < 0.7:
        return [rng.choice([0, 0xff]) for _ in range(n)]
    return [rng.randrange(256) for _ in range(n)]


def arr_strings(rng, bits, reps):
    by = nbytes(bits)
    out = []
    for n in [by] * reps + wrong_ns(bits):
        if n == by:
            r = rng.random()
            if r < 0.5 or bits % 8 == 0:
                out.append(le(enc_value(rng, bits), n))
            elif r < 0.75:
                out.append(le(enc_value(rng, bits) | (1 << rng.randrange(bits, 8 * by)), n))
            else:
                out.append([rng.randrange(256) for _ in range(n)])
        else:
            out.append(rng.choice([[0] * n, [rng.randrange(256) for _ in range(n)]]))
    m = 1 << bits
    for v in (0, m - 1, m):
        if v < (1 << (8 * by)):
            out.append(le(v, by))
    return out


def corpus():
    out = []
    # regression inputs of F5 (fixed): BYTES % 8 == 0 with a non-trivial top-limb mask.
    # (120 bits is not a harness width; 60, 63, 127, 190, 250, 255 are the same class.)
    for bits in (60, 250, 63, 127, 190, 255):
        by = nbytes(bits)
        for f in DEC_SLICE + DEC_ARR:
            out.append("%s %d %s" % (f, bits, C.tokY([0xff] * by)))
    # the crate's own literals
    out.append("try_from_be_slice 128 " + C.tokY([0x12, 0x34, 0x56, 0x78, 0x90] * 3 + [0x12, 0xff]))
    out.append("to_be_bytes 63 Z:8 L:10203")
    out.append("to_le_bytes 63 Z:8 L:10203")
    for bits in (0, 1, 7, 8, 9, 60, 63, 64, 65, 250, 255, 256, 257):
        out.append("nbytes %d" % bits)
        for f in DEC_SLICE:
            for s in boundary_strings(bits):
                out.append(dec_line(f, bits, s))
    return [ln for ln in out if ln not in SUSPECT]


def gen(rng, tier):
    widths = C.WIDTHS_QUICK if tier == "quick" else C.WIDTHS_QUICK + C.WIDTHS_MORE
    reps = 3 if tier == "quick" else 25
    out = []
    for bits in widths:
        by = nbytes(bits)
        out.append("nbytes %d" % bits)
        for _ in range(reps):
            for f in ENC1:
                out.append("%s %d %s" % (f, bits, C.tokU(bits, enc_value(rng, bits))))
            for f in ("to_le_bytes", "to_be_bytes"):
                out.append("%s %d Z:%x %s" % (f, bits, by, C.tokU(bits, enc_value(rng, bits))))
            for shape in range(6):
                out.append("roundtrip %d Z:%x %s" % (bits, shape, C.tokU(bits, enc_value(rng, bits))))
        for f in ("to_le_bytes", "to_be_bytes"):
            for n in wrong_ns(bits):
                out.append("%s %d Z:%x %s" % (f, bits, n, C.tokU(bits, enc_value(rng, bits))))
        # copy forms: every interesting buffer length
        lens = sorted({0, 1, max(0, by - 8), max(0, by - 1), by, by + 1, by + 8,
                       rng.randrange(0, by + 9), rng.randrange(0, by + 1)})
        for f in COPY:
            for n in lens:
                out.append("%s %d %s %s" % (f, bits, C.tokU(bits, enc_value(rng, bits)),
                                            C.tokY(sentinel_buf(rng, n))))
        # decoders
        for f in DEC_SLICE:
            for s in boundary_strings(bits) if tier != "quick" else boundary_strings(bits)[:12]:
                out.append(dec_line(f, bits, s))
            for _ in range(4 * reps):
                out.append(dec_line(f, bits, rand_string(rng, bits)))
        for f in DEC_ARR:
            for s in arr_strings(rng, bits, reps):
                out.append(dec_line(f, bits, s))
    return [ln for ln in out if ln not in SUSPECT]


def nontrivial(line):
    p = line.split()
    if p[1] == "0":
        return False
    for t in p[2:]:
        if t.startswith("L:") and any(x not in ("", "0") for x in t[2:].split(",")):
            return True
        if t.startswith("Y:") and t[2:].strip("0") != "":
            return True
    return False


def known_class(finding, line):
    return False
