"""C04 — values stay canonical; ==, Hash and ordering follow the numeric value; ill-formed
(BITS, LIMBS) pairs have no obtainable value.  Umbrella: metadata + the four parts."""
PID = "C04"
PARTS = ["c04a", "c04b", "c04c", "c04d", "c04e", "c04f", "c04g", "c04h", "c04i"]
LEVEL = "proof"
RULE = ("(a) operation histories: random programs of 1..40 instructions over a register file of 2..4 "
        "Uint<BITS,LIMBS> values, opcodes drawn from every modelled family (add/sub/neg, shifts/rotations, "
        "bit ops, conversions from u64/u128/limb slices, byte/base/string decoders, float conversions, "
        "constants, every Uint-returning method of mul/div/special/gcd/modular/pow) and the opaque root, boundary-biased "
        "initial registers and immediates, every harness width; (b) boundary-biased pairs and triples "
        "(equal, adjacent, differing only in the top / lowest limb) for ==, !=, <, <=, >, >=, cmp, "
        "partial_cmp, min, max, clamp, Hash, is_zero; (c) limb arrays with the top limb at MASK-1, MASK, "
        "MASK+1, 2^64-1 and slices of length 0..LIMBS+2 for from_limbs / *_from_limbs_slice, constants, "
        "deterministic word/byte sources for rand 0.8/0.9 and arbitrary, seeded proptest, quickcheck; "
        "(d) one probe program per constructor x ill-formed pair (64,2) (65,1) (0,1) (64,0) (1,0) (128,1) "
        "(127,3) plus well-formed control pairs; (e)-(i) the remaining Uint producers through the cases, models "
        "and specifications of their own properties (Uint-to-Uint conversions, byte decoders, pow family, div_rem / "
        "next_multiple_of, widening_mul / inv_ring / Product), whose specifications compare raw limbs with the "
        "canonical limbs; approx_pow2 with the libm estimate as an observed input; a case is non-trivial when BITS>0 and it is not a "
        "control; distinct = distinct case lines")
TRUSTED = ["Coq 8.16.1 kernel + vm_compute",
           "hand-written Gallina models coq/Model/{Base,Word,Limbs,Add,Shift,Bits,Conv,Bytes,BaseConv,Str,Float,"
           "Mul,Div*,UDiv,Gcd,GcdMatrix,Modular,Redc,Pow,Cmp,Gen,History,Ctor}.v and the generated coq/Model/CtorTable.v",
           "correspondence harness harness/src/bin/c04{a,b,c}.rs + vlib (python) translation of tokens",
           "source scanner and probe-crate runner in vlib/p_c04d.py (function-body extraction, call closure, "
           "attribution of rustc outcomes)",
           "rustc rule: a const mentioned in a monomorphised body is evaluated (observed by the probes, not proved)",
           "std DefaultHasher = SipHash-1-3 with keys (0,0) (observed)",
           "for the one opaque operation of part (a) (root: its model needs the observed float estimate) `run` "
           "is the specification function, not a model of the code"]
ASSUMPTIONS = ["64-bit little-endian target; usize arithmetic on BITS does not overflow",
               "Hash is observed through std's DefaultHasher::new() only",
               "nondeterministic generators (thread rng, quickcheck Gen) are observed through the bits above "
               "BITS of their outputs only",
               "unsafe API (as_limbs_mut, transmute, zeroed) is out of scope"]
EXPLANATION = ("C04a_holds: every history of modelled operations keeps all registers canonical and follows the "
               "integer interpreter (step_canon / history_canon by induction over the program, each case a "
               "corollary of the operation's characterising lemma); C04b_holds: ==, cmp, min, max, clamp, "
               "Hash, is_zero are functions of eval (eq_iff_value, cmp_spec); C04c_holds: from_limbs and the "
               "from_limbs_slice family reject exactly the out-of-range inputs, constants and generators are "
               "canonical; C04d_holds / illformed_unobtainable: over the table of Self::LIMBS mentions "
               "regenerated from /repo/src on every run, no constructor yields a value at an ill-formed pair; "
               "the correspondence runs evaluate models and specs on the implementation's outputs inside coqc")

# importing part (d) regenerates coq/Model/CtorTable.v from the crate source, before ./check
# compiles Properties/C04.v (which imports the table)
from . import p_c04d as _p_c04d  # noqa: E402,F401
