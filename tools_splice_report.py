#!/usr/bin/env python3
import os, re, subprocess
here = os.path.dirname(os.path.abspath(__file__))
rep = subprocess.run(["python3", os.path.join(here, "tools_report.py")], capture_output=True, text=True).stdout
p = os.path.join(here, "DESIGN.md")
s = open(p).read()
s = re.sub(r"<!-- S10:BEGIN -->.*<!-- S10:END -->", "<!-- S10:BEGIN -->\n" + rep.replace("\\", "\\\\") + "<!-- S10:END -->", s, flags=re.S)
open(p, "w").write(s)
print("spliced", len(rep), "chars")
