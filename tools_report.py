#!/usr/bin/env python3
"""Prints the DESIGN.md §10 tables: per-property status (from MANIFEST + evidence) and seeded changes."""
import glob, json, os
here = os.path.dirname(os.path.abspath(__file__))
man = json.load(open(os.path.join(here, "MANIFEST.json")))
import re
print("### 10.0 Pinned theorems per property (coq/Properties/*.v; each is followed there by Check + Print Assumptions)\n")
for f in sorted(glob.glob(os.path.join(here, "coq", "Properties", "*.v"))):
    src = re.sub(r"\(\*.*?\*\)", " ", open(f).read(), flags=re.S)
    names = re.findall(r"^\s*Theorem\s+([\w']+)", src, flags=re.M)
    print("* `%s` (%d): %s" % (os.path.basename(f), len(names), ", ".join("`%s`" % n for n in names[:40]) + (" …" if len(names) > 40 else "")))
print()
print("### 10.1 Status per property (from MANIFEST.json and the last evidence files)\n")
print("| property | level claimed | theorems (discharged/obligations) | quick cases | wall s |")
print("|---|---|---|---|---|")
for c in man["checks"]:
    pid = c["property_id"]
    ev = os.path.join(here, "evidence", pid + ".json")
    if os.path.exists(ev):
        e = json.load(open(ev)); cov = e["coverage"]
        print("| %s | %s | %s/%s | %s | %s |" % (pid, c["level_claimed"]["category"], cov.get("discharged"), cov.get("obligations"), cov.get("programs"), e.get("wall_s")))
    else:
        print("| %s | %s | - | - | - |" % (pid, c["level_claimed"]["category"]))
print()
print("### 10.2 Defects of recmo/uint found and repaired (known_findings.jsonl; every entry `fixed`, none open)\n")
print("| id | property | fix commit | site | what failed |")
print("|---|---|---|---|---|")
for l in open(os.path.join(here, "known_findings.jsonl")):
    f = json.loads(l)
    print("| %s | %s | `%s` | %s | %s |" % (f["id"], f["property"], f["commit"], f["site"], f["what"].replace("|", "/")[:220]))
print()
print("### 10.3 Seeded changes (independent sub-agents, given only the property text) and which check catches them\n")
print("| seeded change | property | what it needs to manifest | caught by | first failing input reported |")
print("|---|---|---|---|---|")
for d in sorted(glob.glob(os.path.join(here, "seeded", "*"))):
    m = json.load(open(os.path.join(d, "meta.json")))
    r = m.get("confirmed_by_us", {})
    for cid, cr in r.get("checks", {}).items():
        caught = "`./check %s`" % cid if cr.get("violation") else "**missed**"
        print("| %s | %s | %s | %s | `%s` |" % (os.path.basename(d), m.get("property"), (m.get("needs_to_manifest") or m.get("summary") or "").replace("|", "/")[:160], caught, cr.get("replay_case") or "-"))

print()
print("### 10.4 Behaviour-preserving refactorings (independent sub-agents) run through the checks of the touched files: no alarm\n")
print("| refactoring | files rewritten | checks run on the patched tree | alarms |")
print("|---|---|---|---|")
import re as _re
for d in sorted(glob.glob(os.path.join(here, "seeded_refactor", "*"))):
    rp = os.path.join(d, "result.json")
    if not os.path.exists(rp):
        continue
    r = json.load(open(rp))
    files = sorted(set(_re.findall(r"^diff --git a/(\S+)", open(os.path.join(d, "patch.diff")).read(), flags=_re.M)))
    runs = []
    alarms = 0
    for cid, lines in r.get("checks", {}).items():
        last = lines[-1] if lines else ""
        m = _re.search(r"cases=(\d+).*exit=(\d+)", last)
        runs.append("%s (%s cases)" % (cid, m.group(1)) if m else cid)
        if not m or m.group(2) != "0" or any("VIOLATION" in x for x in lines):
            alarms += 1
    print("| %s | %s | %s | %s |" % (os.path.basename(d), ", ".join(files), ", ".join(runs), alarms or "none"))

print()
print("### 10.5 Mechanical single-token mutants of the algorithm kernels (tools_sweep.py; suite-passing mutants only)\n")
print("| file:line | mutation | caught by | first failing input reported |")
print("|---|---|---|---|")
for fp in sorted(glob.glob(os.path.join(here, "seeded_sweep", "*.jsonl"))):
    for l in open(fp):
        r = json.loads(l)
        print("| %s:%s | `%s` -> `%s` | %s | `%s` |" % (r["file"], r["line"], r["old"].strip()[:60].replace("|", "/"), r["new"].strip()[:60].replace("|", "/"),
              ("`./check %s`" % r["caught_by"]) if r.get("status") == "caught" else "**survived**", (r.get("replay_case") or "-")[:90]))
