#!/usr/bin/env python3
"""Assembles coq/Properties/C16.v and C17.v from the per-group parts (coq/Properties/parts/*.part)
and writes the umbrella generator modules vlib/p_c16.py / p_c17.py with the PARTS present."""
import glob, os
here = os.path.dirname(os.path.abspath(__file__))
TITLE = {"C16": "Every codec integration round-trips and emits its format's reference encoding",
         "C17": "Decoders are total on untrusted input: no panic, no out-of-range value"}
for pid in ("C16", "C17"):
    parts = sorted(glob.glob(os.path.join(here, "coq", "Properties", "parts", pid + "?.part")))
    body = "(* Properties/%s.v — %s.\n   Assembled by tools_assemble_props.py from one part per integration group (A: serde, rlp,\n   alloy-rlp, fastrlp; B: SCALE, SSZ, borsh, DER; C: num-bigint, primitive-types, bytemuck,\n   postgres, ark-ff).  Only pinned statements, `exact`, Print Assumptions. *)\n" % (pid, TITLE[pid])
    for p in parts:
        body += "\n(* ======================= %s ======================= *)\n" % os.path.basename(p)
        body += open(p).read()
    open(os.path.join(here, "coq", "Properties", pid + ".v"), "w").write(body)
    groups = [os.path.basename(p)[len(pid)].lower() for p in parts]
    mods = ["%s%s" % (pid.lower(), g) for g in groups]
    open(os.path.join(here, "vlib", "p_%s.py" % pid.lower()), "w").write('''"""%s — umbrella over the integration groups (written by tools_assemble_props.py)."""
PID = "%s"
PARTS = %r
LEVEL = "proof"
RULE = ("per integration group: every encoder/decoder entry point x every harness width x boundary-biased values / "
        "mutated encodings (see the part modules vlib/p_%s?.py); non-trivial and distinct as defined there")
TRUSTED = ["Coq 8.16.1 kernel + vm_compute", "hand-written Gallina models coq/Model/Codec{A,B,C}.v of ruint's glue",
           "format grammars coq/Spec/Fmt{A,B,C}.v", "third-party framing (rlp, alloy-rlp, fastrlp, serde_json, bincode, "
           "parity-scale-codec, ssz, borsh, der, postgres-types, num-bigint, ark-ff) modelled from the format definitions and "
           "validated end-to-end against the real crates by the correspondence run", "harness bins c16a/c16b/c16c"]
ASSUMPTIONS = ["BITS < 2^32 (plain SCALE), BITS < 2^30 (DER), BITS < 2^64 (RLP): bounds of the third-party length types",
               "little-endian 64-bit target"]
EXPLANATION = ("Theorems %s{A,B,C}_holds: for every group, forall wf call, spec call (run call) = true; the correspondence "
               "run calls the real trait impls end to end and evaluates model and spec on their outputs inside coqc")
''' % (pid, pid, mods, pid.lower(), pid))
    print(pid, mods)
