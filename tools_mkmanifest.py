#!/usr/bin/env python3
"""Regenerates MANIFEST.json from the vlib/p_*.py modules present."""
import importlib, json, os, sys, glob
here = os.path.dirname(os.path.abspath(__file__))
sys.path.insert(0, here)
from vlib import common as C
props = [json.loads(l) for l in open(os.path.join(here, "properties.jsonl"))]
mods = {}
for f in sorted(glob.glob(os.path.join(here, "vlib", "p_c*.py"))):
    name = os.path.basename(f)[:-3]
    m = importlib.import_module("vlib." + name)
    if hasattr(m, "PID"):
        mods[m.PID] = m
NOTE = json.load(open(os.path.join(here, "manifest_notes.json"))) if os.path.exists(os.path.join(here, "manifest_notes.json")) else {}
checks = []
for p in props:
    pid = p["id"]
    if pid not in mods or NOTE.get(pid, {}).get("skip"):
        continue
    m = mods[pid]
    n = NOTE.get(pid, {})
    tie = C.gentie_applies(pid)
    tech = n.get("technique", "Coq proof over hand-written Gallina model + differential correspondence check (vm_compute in coqc)")
    note = n.get("note", "Trusted: " + "; ".join(m.TRUSTED) + ". Assumed: " + "; ".join(m.ASSUMPTIONS))
    if tie:
        tech += (" + source tie by translation: tools_rs2v.py regenerates Gallina definitions from the current Rust text of the "
                 "word-level helpers, limb-slice loop kernels, the division stack (dispatch, n-by-1/2, Knuth D, reciprocals), Montgomery, "
                 "Lehmer gcd / matrix, pow / modular loops and Uint wrappers in this "
                 "property's files on every run and Properties/GenTie.v re-proves them equal to the model")
        note += ("; tools_rs2v.py (Rust-subset to Gallina translator, trusted) and coq/Gen/Prim.v for the functions listed in evidence coverage.source_tie")
    checks.append({
        "property_id": pid,
        "quick_cmd": "./check %s --tier quick" % pid,
        "thorough_cmd": "./check %s --tier thorough" % pid,
        "evidence_file": "evidence/%s.json" % pid,
        "replay_cmd_template": "./check %s --replay {path}" % pid,
        "engine": "coq-model+correspondence",
        "level_claimed": {"category": n.get("category", m.LEVEL),
                          "text": n.get("text", m.EXPLANATION),
                          "design_ref": "DESIGN.md §5 %s" % pid},
        "level_note": note,
        "technique": tech,
    })
claimed = {c["property_id"] for c in checks}
na = [{"property_id": p["id"], "reason": NOTE.get(p["id"], {}).get("na", "model and proof not yet integrated (work in progress, see DESIGN.md §5)")}
      for p in props if p["id"] not in claimed]
hooks_commits = NOTE.get("_hooks", {}).get("source_commits", [])
man = {
    "version": 1,
    "setup_cmd": "./setup.sh",
    "hooks": {"guard": "recmo_uint_verif",
              "enable": "RUSTFLAGS=\"--cfg recmo_uint_verif\" (set by vlib/common.py for every harness build)",
              "baseline_off_cmd": "cd /repo && cargo test --workspace --no-fail-fast --offline",
              "source_commits": hooks_commits, "add_only": True},
    "engines": [{"name": "coq-model+correspondence", "path": "check", "serves_properties": sorted(claimed),
                 "kind_free_text": "Coq 8.16 theorems over a hand-written Gallina model; Rust harness (debug+release) vs model and executable spec evaluated by vm_compute inside coqc"}],
    "checks": checks,
    "not_applicable": na,
    "notes": "See DESIGN.md and FRAMEWORK.md. ./check <id> decides one property; known_findings.jsonl lists recorded findings (21 repaired defects, none open).",
}
json.dump(man, open(os.path.join(here, "MANIFEST.json"), "w"), indent=1)
print("claimed:", sorted(claimed))
